package props

import (
	"go/token"
	"go/types"
	"sort"
	"strings"

	"golang.org/x/tools/go/ssa"

	"chverif/core"
)

func init() { register("C20", runC20) }

func isTimeMethod(name string) func(*types.Func) bool {
	return func(f *types.Func) bool { return core.IsMethod(f, "time", "Time", name) }
}

// coefOfValue: v is k * convert(i.Value) (k constant, default 1) or the constant 0.
// Returns (k, usesValue).
func coefOfValue(v ssa.Value, d int) (int64, bool, bool) {
	if d > 8 {
		return 0, false, false
	}
	if k, ok := core.ConstInt(v); ok {
		return k, false, true
	}
	switch x := v.(type) {
	case *ssa.Convert:
		return coefOfValue(x.X, d+1)
	case *ssa.ChangeType:
		return coefOfValue(x.X, d+1)
	case *ssa.BinOp:
		if x.Op == token.MUL {
			k1, u1, ok1 := coefOfValue(x.X, d+1)
			k2, u2, ok2 := coefOfValue(x.Y, d+1)
			if ok1 && ok2 && !(u1 && u2) {
				return k1 * k2, u1 || u2, true
			}
		}
	case *ssa.Field:
		if fieldNameOnly(x.X.Type(), x.Field) == "Value" {
			return 1, true, true
		}
	case *ssa.UnOp:
		if x.Op == token.MUL {
			if fa, ok := x.X.(*ssa.FieldAddr); ok && fieldNameOnly(fa.X.Type(), fa.Field) == "Value" {
				return 1, true, true
			}
		}
	}
	return 0, false, false
}

func runC20(c *Ctx) {
	p := c.Prog(core.CfgDefault)
	if p == nil {
		return
	}
	cfg := p.Cfg.Name

	// ---- C20.interval
	rule := "C20.interval"
	c.R.Rule(rule, "table extraction from Interval.Add: each case of the switch on the scale is reduced, by constant folding through conversions and multiplications, to (operation, coefficient of the interval's value); oracle from the statement: second/minute/hour = Time.Add of 1e9 / 60e9 / 3600e9 ns; day = AddDate(0,0,1), week = AddDate(0,0,7), month = AddDate(0,1,0), quarter = AddDate(0,3,0), year = AddDate(1,0,0) (calendar units must use calendar arithmetic: fixed durations overflow beyond 292 years and shift across DST)")
	func() {
		add := p.Method(core.PkgProto, "Interval", "Add")
		if !c.must(p, "Interval.Add", add != nil) {
			return
		}
		type want struct {
			op      string
			y, m, d int64
			ns      int64
		}
		oracle := map[string]want{
			"IntervalSecond": {op: "Add", ns: 1e9}, "IntervalMinute": {op: "Add", ns: 60e9}, "IntervalHour": {op: "Add", ns: 3600e9},
			"IntervalDay": {op: "AddDate", d: 1}, "IntervalWeek": {op: "AddDate", d: 7}, "IntervalMonth": {op: "AddDate", m: 1},
			"IntervalQuarter": {op: "AddDate", m: 3}, "IntervalYear": {op: "AddDate", y: 1},
		}
		tbl := switchTable(add, func(v ssa.Value) bool { return core.IsNamed(v.Type(), core.PkgProto, "IntervalScale") })
		names := make([]string, 0, len(oracle))
		for n := range oracle {
			names = append(names, n)
		}
		sort.Strings(names)
		for _, name := range names {
			w := oracle[name]
			kv, ok := constOf(p, core.PkgProto, name)
			key := "case/" + name
			if !ok {
				c.R.Unk(rule, key, cfg, "", "constant missing")
				continue
			}
			coef := func(v ssa.Value) (int64, bool, bool) { return coefOfValue(v, 0) }
			var call *ssa.Call
			if blk := tbl[kv]; blk != nil {
				for _, in := range blk.Instrs {
					if cl, ok := in.(*ssa.Call); ok {
						if f := core.CalleeFunc(cl); f != nil && (isTimeMethod("Add")(f) || isTimeMethod("AddDate")(f)) {
							call = cl
						}
					}
				}
			}
			if call == nil {
				// not one switch with the operation in each case: prune the function under Scale == this constant
				if cl, co, ok := intervalCaseFold(add, kv); ok {
					call, coef = cl, co
				}
			}
			if call == nil {
				if tbl[kv] == nil {
					c.R.Bad(rule, key, cfg, p.Pos(add.Pos()), "Interval.Add has no case for this scale")
				} else {
					c.R.Unk(rule, key, cfg, p.Pos(tbl[kv].Instrs[0].Pos()), "case does not end in Time.Add / Time.AddDate")
				}
				continue
			}
			f := core.CalleeFunc(call)
			pos := p.Pos(call.Pos())
			if f.Name() != w.op {
				c.R.Bad(rule, key, cfg, pos, sprintf("%s uses Time.%s; the oracle requires Time.%s (calendar units need calendar arithmetic, clock units need durations)", name, f.Name(), w.op))
				continue
			}
			if w.op == "Add" {
				k, uses, ok := coef(call.Call.Args[1])
				switch {
				case !ok || !uses:
					c.R.Unk(rule, key, cfg, pos, "duration is not constant * value")
				case k != w.ns:
					c.R.Bad(rule, key, cfg, pos, sprintf("%s adds %d ns per unit, expected %d", name, k, w.ns))
				default:
					c.R.Ok(rule, key, cfg, pos, sprintf("Add(%d ns * value)", k))
				}
				continue
			}
			got := [3]int64{}
			okAll := true
			for i := 0; i < 3; i++ {
				k, uses, ok := coef(call.Call.Args[1+i])
				if !ok {
					okAll = false
					break
				}
				if uses {
					got[i] = k
				} else if k != 0 {
					okAll = false
				}
			}
			switch {
			case !okAll:
				c.R.Unk(rule, key, cfg, pos, "AddDate arguments are not constant * value / 0")
			case got != [3]int64{w.y, w.m, w.d}:
				c.R.Bad(rule, key, cfg, pos, sprintf("%s adds (years,months,days) = (%d,%d,%d) per unit, expected (%d,%d,%d)", name, got[0], got[1], got[2], w.y, w.m, w.d))
			default:
				c.R.Ok(rule, key, cfg, pos, sprintf("AddDate(%d,%d,%d) per unit", got[0], got[1], got[2]))
			}
		}
	}()

	// ---- C20.trunc
	rule = "C20.trunc"
	c.R.Rule(rule, "conversions from time.Time to a day-granular type with a signed underlying integer (Date32) must not divide a possibly negative second count with Go's truncating `/` without a sign-dependent correction: before 1970 a non-midnight instant would land on the next day. Judged only when the function contains no sign test at all")
	func() {
		n := 0
		for _, fn := range p.Funcs() {
			if pkgOf(fn) == nil || pkgOf(fn).Path() != core.PkgProto || fn.Signature.Results().Len() != 1 {
				continue
			}
			res := fn.Signature.Results().At(0).Type()
			named := core.NamedOf(res)
			if named == nil || named.Obj().Name() != "Date32" {
				continue
			}
			if !reachesInProto(fn, isTimeMethod("Unix"), 2) {
				continue
			}
			n++
			key := core.FuncName(fn)
			var quo *ssa.BinOp
			signTest := false
			for _, b := range fn.Blocks {
				for _, in := range b.Instrs {
					bo, ok := in.(*ssa.BinOp)
					if !ok {
						continue
					}
					if bo.Op == token.QUO {
						isUnix := func(v ssa.Value) bool {
							_, ok := core.CallTo(v, isTimeMethod("Unix"))
							return ok
						}
						if core.DependsOn(bo.X, isUnix, false) || core.DependsOnResults(bo.X, isUnix) {
							quo = bo
						}
					}
					if bo.Op == token.LSS || bo.Op == token.GEQ || bo.Op == token.GTR || bo.Op == token.LEQ {
						if k, ok := core.ConstInt(bo.Y); ok && k == 0 {
							signTest = true
						}
					}
					if bo.Op == token.REM {
						signTest = true // floor-division idioms use the remainder
					}
				}
			}
			// the sign correction must test the remainder of the very value that is divided
			var rem *ssa.BinOp
			for _, b := range fn.Blocks {
				for _, in := range b.Instrs {
					if bo, ok := in.(*ssa.BinOp); ok && bo.Op == token.REM {
						rem = bo
					}
				}
			}
			if quo != nil && rem != nil && quo.X != rem.X {
				c.R.Bad(rule, key, cfg, p.Pos(rem.Pos()), "the floor correction takes the remainder of a different value than the one that is divided (e.g. seconds without the zone offset): instants whose two values fall on different sides of a day boundary land on the wrong day")
				continue
			}
			switch {
			case quo == nil:
				c.R.Ok(rule, key, cfg, p.Pos(fn.Pos()), "no truncating division of the second count")
			case signTest:
				c.R.Ok(rule, key, cfg, p.Pos(quo.Pos()), "division with a sign-dependent correction (not judged further)")
			default:
				c.R.Bad(rule, key, cfg, p.Pos(quo.Pos()), "(unix + offset) / 86400 truncates toward zero: for instants before 1970 that are not at midnight the result is the following day (1969-12-31 12:00 -> day 0 = 1970-01-01)")
			}
		}
		if n == 0 {
			c.R.Unk(rule, "population", cfg, "", "no time -> Date32 conversion found")
		}
	}()

	// ---- C20.unixnano
	rule = "C20.unixnano"
	c.R.Rule(rule, "DateTime64 covers 1900..2299 but time.Time.UnixNano is undefined outside 1678..2262 and value*scale nanoseconds overflows int64 there: conversions to and from DateTime64 must not go through an int64 nanosecond count (an unconditional UnixNano call, or the product of the value and the tick scale handed to time.Unix as nanoseconds)")
	func() {
		n := 0
		for _, fn := range p.Funcs() {
			if pkgOf(fn) == nil || pkgOf(fn).Path() != core.PkgProto || fn.Parent() != nil {
				continue
			}
			toDT := fn.Signature.Results().Len() == 1 && core.IsNamed(fn.Signature.Results().At(0).Type(), core.PkgProto, "DateTime64")
			fromDT := fn.Signature.Recv() != nil && core.IsNamed(fn.Signature.Recv().Type(), core.PkgProto, "DateTime64") && fn.Name() == "Time"
			if !toDT && !fromDT {
				continue
			}
			key := core.FuncName(fn)
			if toDT {
				calls := core.FindCalls(fn, isTimeMethod("UnixNano"))
				takesTime := false
				for _, pr := range fn.Params {
					if core.IsNamed(pr.Type(), "time", "Time") {
						takesTime = true
					}
				}
				if !takesTime {
					continue
				}
				n++
				bad := false
				// a time.Duration between two instants saturates at about 292 years as well
				for _, cl := range core.FindCalls(fn, func(f *types.Func) bool {
					return isTimeMethod("Sub")(f) || core.IsFunc(f, "time", "Since") || core.IsFunc(f, "time", "Until")
				}) {
					bad = true
					c.R.Bad(rule, key, cfg, p.Pos(cl.Pos()), "the conversion goes through a time.Duration between two instants, which silently saturates at about 292 years: every instant after 2262-04-11 (inside the documented range up to 2299) collapses to the same value")
				}
				for _, cl := range calls {
					// unconditional: dominates every non-zero-return path => not guarded by a range test
					guarded := false
					for _, b := range fn.Blocks {
						if ifi, ok := b.Instrs[len(b.Instrs)-1].(*ssa.If); ok {
							if core.DependsOn(ifi.Cond, func(v ssa.Value) bool {
								_, ok := core.CallTo(v, func(f *types.Func) bool {
									return isTimeMethod("Year")(f) || isTimeMethod("Before")(f) || isTimeMethod("After")(f)
								})
								return ok
							}, false) && (b.Dominates(cl.Block())) {
								guarded = true
							}
						}
					}
					if !guarded {
						bad = true
						c.R.Bad(rule, key, cfg, p.Pos(cl.Pos()), "t.UnixNano() is used for every instant: for years 2262..2299 (inside the documented range) the result is undefined and the stored value is wrong")
					}
				}
				if !bad {
					c.R.Ok(rule, key, cfg, p.Pos(fn.Pos()), "no unguarded UnixNano")
				}
			}
			if fromDT {
				n++
				bad := false
				for _, cl := range core.FindCalls(fn, func(f *types.Func) bool { return core.IsFunc(f, "time", "Unix") }) {
					for _, a := range cl.Common().Args {
						isNs := core.DependsOn(a, func(v ssa.Value) bool {
							bo, ok := v.(*ssa.BinOp)
							if !ok || bo.Op != token.MUL {
								return false
							}
							isRecv := func(x ssa.Value) bool {
								return core.DependsOn(x, func(y ssa.Value) bool {
									pr, ok := y.(*ssa.Parameter)
									return ok && core.IsNamed(pr.Type(), core.PkgProto, "DateTime64")
								}, false)
							}
							isScale := func(x ssa.Value) bool {
								_, ok := core.CallTo(x, func(f *types.Func) bool { return core.IsMethod(f, core.PkgProto, "Precision", "Scale") })
								return ok
							}
							// whole value times nanoseconds-per-tick: the full count in ns
							return (isRecv(bo.X) && isScale(bo.Y) || isRecv(bo.Y) && isScale(bo.X)) && !hasDivOrRem(bo.X) && !hasDivOrRem(bo.Y)
						}, false)
						if isNs {
							bad = true
						}
					}
				}
				if bad {
					c.R.Bad(rule, key, cfg, p.Pos(fn.Pos()), "value * scale is the instant in int64 nanoseconds: it overflows for instants after 2262-04-11 (inside the documented range), and Time() returns a wrong date")
				} else {
					c.R.Ok(rule, key, cfg, p.Pos(fn.Pos()), "seconds and the sub-second remainder are converted separately")
				}
			}
		}
		if n < 2 {
			c.R.Unk(rule, "population", cfg, "", "DateTime64 converters not found")
		}
	}()

	// ---- C20.endian
	rule = "C20.endian"
	c.R.Rule(rule, "inverse helper pairs use the same byte order: IPv4.ToIP and ToIPv4 both use one encoding/binary order; every Put has the matching accessor width")
	func() {
		toIP := p.Method(core.PkgProto, "IPv4", "ToIP")
		toV4 := p.Func(core.PkgProto, "ToIPv4")
		if !c.must(p, "IPv4.ToIP / ToIPv4", toIP != nil && toV4 != nil) {
			return
		}
		o1, w1 := binaryOrder(toIP)
		o2, w2 := binaryOrder(toV4)
		if o1 != "" && o1 == o2 && w1 == w2 {
			c.R.Ok(rule, "IPv4", cfg, p.Pos(toIP.Pos()), o1+" "+w1+" on both sides")
		} else {
			c.R.Bad(rule, "IPv4", cfg, p.Pos(toIP.Pos()), sprintf("ToIP uses %s %s but ToIPv4 uses %s %s: the helpers do not invert each other", o1, w1, o2, w2))
		}
	}()

	// ---- C20.widen
	rule = "C20.widen"
	c.R.Rule(rule, "the wide-integer constructors from unsigned 64-bit values (…FromUInt64) never route the value through a signed type: a uint64 -> int/int64 conversion sign-extends inputs with the top bit set")
	func() {
		n := 0
		for _, fn := range p.Funcs() {
			if pkgOf(fn) == nil || pkgOf(fn).Path() != core.PkgProto || !strings.Contains(fn.Name(), "FromUInt64") {
				continue
			}
			n++
			bad := false
			for f := range core.StaticReach(fn, 2) {
				if f != fn && !strings.Contains(f.Name(), "FromUInt64") && !strings.Contains(f.Name(), "UInt") {
					// helper reached with a converted value: check the conversion at the call site in fn
				}
				_ = f
			}
			for _, b := range fn.Blocks {
				for _, in := range b.Instrs {
					cv, ok := in.(*ssa.Convert)
					if !ok {
						continue
					}
					from, ok1 := cv.X.Type().Underlying().(*types.Basic)
					to, ok2 := cv.Type().Underlying().(*types.Basic)
					if ok1 && ok2 && from.Info()&types.IsUnsigned != 0 && to.Info()&types.IsInteger != 0 && to.Info()&types.IsUnsigned == 0 {
						bad = true
						c.R.Bad(rule, core.FuncName(fn), cfg, p.Pos(cv.Pos()), "the unsigned input is converted to a signed integer on its way into the wide value: inputs >= 2^63 become negative (high word all ones)")
					}
				}
			}
			if !bad {
				c.R.Ok(rule, core.FuncName(fn), cfg, p.Pos(fn.Pos()), "no signed detour")
			}
		}
		if n == 0 {
			c.R.Unk(rule, "population", cfg, "", "no …FromUInt64 constructors found")
		}
	}()

	// ---- C20.signext
	rule = "C20.signext"
	c.R.Rule(rule, "sign extension of the wide-integer constructors from int: Int128FromInt / Int256FromInt set every 64-bit word above the lowest to all ones exactly under the `v < 0` test of their argument (one such word for 128 bits, three for 256 bits), the lowest word is the converted argument")
	func() {
		for name, upper := range map[string]int{"Int128FromInt": 1, "Int256FromInt": 3} {
			fn := p.Func(core.PkgProto, name)
			if fn == nil {
				c.R.Unk(rule, "proto."+name, cfg, "", "constructor missing")
				continue
			}
			negOf := func(fn *ssa.Function) []core.Edge {
				return core.CondEdges(fn, true, func(cond ssa.Value) (bool, bool) {
					bo, ok := cond.(*ssa.BinOp)
					if !ok {
						return false, false
					}
					if _, isParam := bo.X.(*ssa.Parameter); isParam {
						if k, okc := core.ConstInt(bo.Y); okc {
							switch {
							case bo.Op == token.LSS && k == 0, bo.Op == token.LEQ && k == -1:
								return true, true
							case bo.Op == token.GEQ && k == 0, bo.Op == token.GTR && k == -1:
								return false, true
							}
						}
					}
					if _, isParam := bo.Y.(*ssa.Parameter); isParam {
						if k, okc := core.ConstInt(bo.X); okc && k == 0 {
							switch bo.Op {
							case token.GTR:
								return true, true
							case token.LEQ:
								return false, true
							}
						}
					}
					return false, false
				})
			}
			isMaxC := func(v ssa.Value) bool {
				cst, ok := v.(*ssa.Const)
				return ok && cst.Value != nil && cst.Uint64() == ^uint64(0) && cst.Value.String() != "-1"
			}
			// a helper h(v int) uint64 that yields all ones exactly for negative v (the sign word)
			isSignHelper := func(h *ssa.Function) bool {
				if h == nil || h.Blocks == nil || len(h.Params) != 1 || h.Signature.Results().Len() != 1 {
					return false
				}
				hneg := negOf(h)
				if len(hneg) == 0 {
					return false
				}
				sawMax, sawZero := false, false
				for _, hb := range h.Blocks {
					ret, ok := hb.Instrs[len(hb.Instrs)-1].(*ssa.Return)
					if !ok {
						continue
					}
					vals := []ssa.Value{ret.Results[0]}
					anchors := []ssa.Instruction{ret}
					if ph, isPhi := ret.Results[0].(*ssa.Phi); isPhi {
						vals, anchors = nil, nil
						for i, e := range ph.Edges {
							pred := ph.Block().Preds[i]
							vals = append(vals, e)
							anchors = append(anchors, pred.Instrs[len(pred.Instrs)-1])
						}
					}
					for i, v := range vals {
						switch {
						case isMaxC(v):
							if !core.OnlyViaEdges(h, anchors[i], hneg) {
								return false
							}
							sawMax = true
						default:
							if k, okc := core.ConstInt(v); !okc || k != 0 {
								return false
							}
							// zero must not be what negative arguments get
							if core.OnlyViaEdges(h, anchors[i], hneg) {
								return false
							}
							sawZero = true
						}
					}
				}
				return sawMax && sawZero
			}
			isSignWord := func(v ssa.Value) bool {
				cl, ok := v.(*ssa.Call)
				if !ok || len(cl.Call.Args) != 1 {
					return false
				}
				if _, isParam := stripConv(cl.Call.Args[0]).(*ssa.Parameter); !isParam {
					return false
				}
				h := core.StaticFn(cl)
				return h != nil && pkgOf(h) != nil && pkgOf(h).Path() == core.PkgProto && isSignHelper(h)
			}
			neg := core.CondEdges(fn, true, func(cond ssa.Value) (bool, bool) {
				bo, ok := cond.(*ssa.BinOp)
				if !ok {
					return false, false
				}
				// v < 0, v >= 0, 0 > v, 0 <= v (and v <= -1, v > -1)
				if _, isParam := bo.X.(*ssa.Parameter); isParam {
					if k, okc := core.ConstInt(bo.Y); okc {
						switch {
						case bo.Op == token.LSS && k == 0, bo.Op == token.LEQ && k == -1:
							return true, true
						case bo.Op == token.GEQ && k == 0, bo.Op == token.GTR && k == -1:
							return false, true
						}
					}
				}
				if _, isParam := bo.Y.(*ssa.Parameter); isParam {
					if k, okc := core.ConstInt(bo.X); okc && k == 0 {
						switch bo.Op {
						case token.GTR:
							return true, true
						case token.LEQ:
							return false, true
						}
					}
				}
				return false, false
			})
			n := 0
			viaHelper := false
			isMax := func(v ssa.Value) bool {
				cst, ok := v.(*ssa.Const)
				return ok && cst.Value != nil && cst.Uint64() == ^uint64(0) && cst.Value.String() != "-1"
			}
			for _, b := range fn.Blocks {
				for _, in := range b.Instrs {
					switch x := in.(type) {
					case *ssa.Store:
						if isMax(x.Val) && len(neg) > 0 && core.OnlyViaEdges(fn, x, neg) {
							n++
						}
						if isSignWord(x.Val) {
							n++
							viaHelper = true
						}
					case *ssa.Phi:
						for i, e := range x.Edges {
							if isMax(e) && len(neg) > 0 {
								pred := b.Preds[i]
								if core.OnlyViaEdges(fn, pred.Instrs[len(pred.Instrs)-1], neg) {
									n++
								}
							}
						}
					}
				}
			}
			if len(neg) == 0 && !viaHelper {
				c.R.Bad(rule, "proto."+name, cfg, p.Pos(fn.Pos()), "no `v < 0` test: negative arguments are not sign-extended")
			} else if n < upper {
				c.R.Bad(rule, "proto."+name, cfg, p.Pos(fn.Pos()), sprintf("only %d of the %d upper 64-bit words are set to all ones for a negative argument", n, upper))
			} else {
				c.R.Ok(rule, "proto."+name, cfg, p.Pos(fn.Pos()), sprintf("%d upper word(s) = MaxUint64 under v < 0", n))
			}
		}
	}()

	// ---- C20.remfix
	rule = "C20.remfix"
	c.R.Rule(rule, "unit consistency of floor corrections in package proto: when a remainder r = a % d is adjusted (r + k, typically under `r < 0` together with a decrement of the quotient) the amount added is the modulus d itself (the same value or the same constant); adding another quantity (the tick length instead of the ticks per second) moves every negative value with a fraction to a wrong instant")
	func() {
		n := 0
		for _, fn := range p.Funcs() {
			if pkgOf(fn) == nil || pkgOf(fn).Path() != core.PkgProto {
				continue
			}
			for _, b := range fn.Blocks {
				for _, in := range b.Instrs {
					rem, ok := in.(*ssa.BinOp)
					if !ok || rem.Op != token.REM || rem.Referrers() == nil {
						continue
					}
					for _, ref := range *rem.Referrers() {
						add, ok := ref.(*ssa.BinOp)
						if !ok || add.Op != token.ADD {
							continue
						}
						k := add.Y
						if k == ssa.Value(rem) {
							k = add.X
						}
						n++
						key := sprintf("%s/remfix#%d", core.FuncName(fn), n)
						same := k == rem.Y
						if kc, ok1 := core.ConstInt(k); ok1 {
							if dc, ok2 := core.ConstInt(rem.Y); ok2 && kc == dc {
								same = true
							}
						}
						if same {
							c.R.Ok(rule, key, cfg, p.Pos(add.Pos()), "remainder corrected by its modulus")
						} else {
							c.R.Bad(rule, key, cfg, p.Pos(add.Pos()), "a remainder is corrected by adding something other than the modulus it was taken by: quotient and remainder no longer describe the same value (off by a factor between the two units)")
						}
					}
				}
			}
		}
		if n == 0 {
			c.R.Ok(rule, "proto", cfg, "", "no remainder is adjusted additively in package proto").Trivial = true
		}
	}()

	// ---- C20.clamp
	rule = "C20.clamp"
	c.R.Rule(rule, "saturating conversions in package proto: when a function returning a named integer scalar (DateTime, Date, Date32, ...) clamps - `x > K -> return C` / `x < K -> return C` with constants - the bound and the returned value are the extreme of the result type's underlying integer (MaxUint32 for a uint32, not MaxInt32): a tighter bound silently maps the upper part of the documented range to one value")
	func() {
		n := 0
		for _, fn := range p.Funcs() {
			if pkgOf(fn) == nil || pkgOf(fn).Path() != core.PkgProto || fn.Signature.Results().Len() != 1 || fn.Blocks == nil {
				continue
			}
			rt := fn.Signature.Results().At(0).Type()
			bt, ok := rt.Underlying().(*types.Basic)
			if !ok || bt.Info()&types.IsInteger == 0 || core.NamedOf(rt) == nil {
				continue
			}
			var lo, hi int64
			var hiU uint64
			switch bt.Kind() {
			case types.Uint8:
				hiU = 1<<8 - 1
			case types.Uint16:
				hiU = 1<<16 - 1
			case types.Uint32:
				hiU = 1<<32 - 1
			case types.Int8:
				lo, hi = -1<<7, 1<<7-1
			case types.Int16:
				lo, hi = -1<<15, 1<<15-1
			case types.Int32:
				lo, hi = -1<<31, 1<<31-1
			default:
				continue
			}
			if hiU != 0 {
				hi = int64(hiU)
			}
			for _, b := range fn.Blocks {
				ifi, ok := b.Instrs[len(b.Instrs)-1].(*ssa.If)
				if !ok {
					continue
				}
				bo, ok := ifi.Cond.(*ssa.BinOp)
				if !ok {
					continue
				}
				k, okc := core.ConstInt(bo.Y)
				if !okc || (bo.Op != token.GTR && bo.Op != token.GEQ && bo.Op != token.LSS && bo.Op != token.LEQ) {
					continue
				}
				tb := b.Succs[0]
				ret, ok := tb.Instrs[len(tb.Instrs)-1].(*ssa.Return)
				if !ok || len(tb.Instrs) > 2 {
					continue
				}
				cv, okv := core.ConstInt(stripConv(ret.Results[0]))
				if !okv {
					continue
				}
				// a clamp belongs to a conversion: some other return yields the compared value itself
				isConv := false
				for _, rb := range fn.Blocks {
					if r2, ok := rb.Instrs[len(rb.Instrs)-1].(*ssa.Return); ok && r2 != ret {
						if _, isC := stripConv(r2.Results[0]).(*ssa.Const); !isC && core.DependsOn(r2.Results[0], func(x ssa.Value) bool { return x == bo.X }, false) {
							isConv = true
						}
					}
				}
				if !isConv {
					continue
				}
				upper := bo.Op == token.GTR || bo.Op == token.GEQ
				if upper && cv == 0 || !upper && cv != 0 && cv != lo {
					// `x > K -> return 0`-style special cases are not clamps
					if !(upper && cv == k) && !(!upper && cv == k) {
						continue
					}
				}
				n++
				key := sprintf("%s/clamp#%d", core.FuncName(fn), n)
				want := hi
				if !upper {
					want = lo
				}
				if cv == want && (k == want || bo.Op == token.GEQ && k == want || bo.Op == token.LEQ && k == want) {
					c.R.Ok(rule, key, cfg, p.Pos(ifi.Cond.Pos()), sprintf("clamps at the extreme of %s", bt.Name()))
				} else {
					c.R.Bad(rule, key, cfg, p.Pos(ifi.Cond.Pos()), sprintf("values %s %d are mapped to %d, but %s (%s) reaches %d: part of the documented range collapses to one value", bo.Op, k, cv, core.NamedOf(rt).Obj().Name(), bt.Name(), want))
				}
			}
		}
		if n == 0 {
			c.R.Ok(rule, "proto", cfg, "", "no saturating conversion in package proto").Trivial = true
		}
	}()

	// ---- C20.scale
	ruleScale(c, p, "C20.scale")

	// ---- C20.ipinverse
	rule = "C20.ipinverse"
	c.R.Rule(rule, "effect whitelist for the IP helpers: IPv6.ToIP / ToIPv6 and IPv4.ToIP / ToIPv4 call nothing but the bijective constructors and accessors of net/netip (AddrFrom16 / As16, AddrFrom4 / As4) and fixed-width encoding/binary accessors: a normalising call (Unmap, WithZone, Prefix...) maps distinct values to one and the pair stops being inverse for those inputs")
	func() {
		allowed := map[string]bool{"AddrFrom16": true, "As16": true, "AddrFrom4": true, "As4": true, "Uint32": true, "PutUint32": true}
		n := 0
		for _, tn := range []string{"IPv6", "IPv4"} {
			for _, mn := range []string{"ToIP"} {
				if fn := p.Method(core.PkgProto, tn, mn); fn != nil {
					n++
					ruleIPCalls(c, p, rule, fn, allowed)
				}
			}
		}
		for _, fnm := range []string{"ToIPv6", "ToIPv4"} {
			if fn := p.Func(core.PkgProto, fnm); fn != nil {
				n++
				ruleIPCalls(c, p, rule, fn, allowed)
			}
		}
		c.R.Floor(rule, cfg, n, 4)
	}()

	// ---- C20.dayzone
	rule = "C20.dayzone"
	c.R.Rule(rule, "day-granular scalars round-trip in every process time zone: for each named integer type D of package proto whose converter To<D>(time.Time) takes the calendar day in the time's own zone (it adds the offset of Time.Zone), D.Time() does not return the bare result of time.Unix / UnixMilli / UnixMicro - those carry time.Local, so west of UTC the midnight instant falls on the previous local day and To<D>(d.Time()) == d-1; the result is pinned to a zone (UTC(), In(...), time.Date)")
	func() {
		n := 0
		for _, fn := range p.Funcs() {
			if pkgOf(fn) == nil || pkgOf(fn).Path() != core.PkgProto || fn.Signature.Recv() != nil || !strings.HasPrefix(fn.Name(), "To") || fn.Blocks == nil {
				continue
			}
			sig := fn.Signature
			if sig.Params().Len() != 1 || sig.Results().Len() != 1 || !core.IsNamed(sig.Params().At(0).Type(), "time", "Time") {
				continue
			}
			d := core.NamedOf(sig.Results().At(0).Type())
			if d == nil || d.Obj().Pkg() == nil || d.Obj().Pkg().Path() != core.PkgProto {
				continue
			}
			if _, isInt := d.Underlying().(*types.Basic); !isInt {
				continue
			}
			usesZone := reachesInProto(fn, func(f *types.Func) bool { return core.IsMethod(f, "time", "Time", "Zone") }, 2)
			if !usesZone {
				continue
			}
			tm := p.Method(core.PkgProto, d.Obj().Name(), "Time")
			if tm == nil || tm.Blocks == nil {
				continue
			}
			n++
			key := d.Obj().Name() + ".Time"
			bad := false
			for _, b := range tm.Blocks {
				ret, ok := b.Instrs[len(b.Instrs)-1].(*ssa.Return)
				if !ok || len(ret.Results) != 1 {
					continue
				}
				if cl, ok := ret.Results[0].(*ssa.Call); ok {
					if f := core.CalleeFunc(cl); f != nil && f.Pkg() != nil && f.Pkg().Path() == "time" && strings.HasPrefix(f.Name(), "Unix") && cl.Call.Signature().Recv() == nil {
						bad = true
						c.R.Bad(rule, key, cfg, p.Pos(ret.Pos()), d.Obj().Name()+".Time() returns time."+f.Name()+"(...) in the process-local zone while "+fn.Name()+" takes the calendar day in the time's own zone: in a zone west of UTC "+fn.Name()+"(d.Time()) is the previous day")
					}
				}
			}
			if !bad {
				c.R.Ok(rule, key, cfg, p.Pos(tm.Pos()), "the returned time is pinned to a zone; "+fn.Name()+" reads the day in that zone")
			}
		}
		c.R.Floor(rule, cfg, n, 2)
	}()

	// ---- C20.lowsign
	rule = "C20.lowsign"
	c.R.Rule(rule, "the sign of a wide integer lives in its most significant limb: in package proto no comparison with zero is made on a signed conversion of the least significant limb (the first uint64 field of a struct made of uint64 limbs) - `int64(i.Low) < 0` is true for every non-negative value whose low 64 bits have the top bit set, so Int128FromUInt64(v).UInt64() stops being v for v >= 2^63")
	func() {
		isLimbStruct := func(t types.Type) bool {
			st, ok := t.Underlying().(*types.Struct)
			if !ok || st.NumFields() < 2 {
				return false
			}
			for i := 0; i < st.NumFields(); i++ {
				ft := st.Field(i).Type()
				if b, ok := ft.Underlying().(*types.Basic); ok && b.Kind() == types.Uint64 {
					continue
				}
				if inner, ok := ft.Underlying().(*types.Struct); ok && inner.NumFields() >= 2 {
					continue
				}
				return false
			}
			return true
		}
		lowLimb := func(v ssa.Value) bool {
			switch x := v.(type) {
			case *ssa.Field:
				return x.Field == 0 && isLimbStruct(x.X.Type())
			case *ssa.UnOp:
				if fa, ok := x.X.(*ssa.FieldAddr); ok && x.Op == token.MUL {
					pt, ok := fa.X.Type().Underlying().(*types.Pointer)
					return ok && fa.Field == 0 && isLimbStruct(pt.Elem())
				}
			}
			return false
		}
		n, bad := 0, 0
		for _, fn := range p.Funcs() {
			if pkgOf(fn) == nil || pkgOf(fn).Path() != core.PkgProto || fn.Blocks == nil {
				continue
			}
			for _, b := range fn.Blocks {
				for _, in := range b.Instrs {
					bo, ok := in.(*ssa.BinOp)
					if !ok {
						continue
					}
					switch bo.Op {
					case token.LSS, token.GEQ, token.GTR, token.LEQ:
					default:
						continue
					}
					for _, pair := range [][2]ssa.Value{{bo.X, bo.Y}, {bo.Y, bo.X}} {
						if k, okc := core.ConstInt(pair[1]); !okc || k != 0 {
							continue
						}
						cv, ok := pair[0].(*ssa.Convert)
						if !ok {
							continue
						}
						bt, ok := cv.Type().Underlying().(*types.Basic)
						if !ok || bt.Info()&types.IsInteger == 0 || bt.Info()&types.IsUnsigned != 0 {
							continue
						}
						src := cv.X
						for {
							if c2, ok := src.(*ssa.Convert); ok {
								src = c2.X
								continue
							}
							break
						}
						if !lowLimb(src) {
							if core.DependsOn(src, func(v ssa.Value) bool {
								return lowLimb(v) || (func() bool { f, ok := v.(*ssa.Field); return ok && isLimbStruct(f.X.Type()) })()
							}, false) {
								n++
							}
							continue
						}
						n++
						bad++
						c.R.Bad(rule, core.FuncName(fn)+"/low-sign", cfg, p.Pos(bo.Pos()), "the sign of a wide integer is tested on its least significant limb: non-negative values with bit 63 of the low limb set are treated as negative")
					}
				}
			}
		}
		if bad == 0 {
			c.R.Ok(rule, "proto", cfg, "", sprintf("no sign test on a least significant limb (%d sign tests on limbs seen)", n))
		}
	}()

	ruleDerivedFields(c, p, "C20.derived")
	ruleRowUniform(c, p, "C20.row-uniform")
	ruleTicksOfArgument(c, p, "C20.ticks-of-arg")
	ruleDayCarry(c, p, "C20.day-carry")
	ruleAppendTail(c, p, "C20.tail")
	ruleLimbPairs(c, p, "C20.limbs")
	ruleAddrStringDelegates(c, p, "C20.addr-string")
	ruleInstantKept(c, p, "C20.instant")
	ruleLostReceiverWrite(c, p, "C20.receiver")
	ruleRangeOnShiftedDay(c, p, "C20.range-shifted")
	ruleResetKeepsParameters(c, p, "C20.reset-keeps")
	rulePerElementZone(c, p, "C20.per-element")

	// ---- C20.family
	rule = "C20.family"
	c.R.Rule(rule, "no conversion between distinct temporal scalar types (Date, Date32, DateTime, DateTime64) inside the column methods: a Date32 column that goes through the 16-bit Date helper wraps every day outside 1970..2149")
	func() {
		fam := map[string]bool{"Date": true, "Date32": true, "DateTime": true, "DateTime64": true}
		n := 0
		bad := false
		for _, fn := range p.Funcs() {
			if pkgOf(fn) == nil || pkgOf(fn).Path() != core.PkgProto {
				continue
			}
			for _, b := range fn.Blocks {
				for _, in := range b.Instrs {
					cv, ok := in.(*ssa.Convert)
					if !ok {
						continue
					}
					from, to := core.NamedOf(cv.X.Type()), core.NamedOf(cv.Type())
					if from == nil || to == nil || from.Obj().Pkg() == nil || to.Obj().Pkg() == nil {
						continue
					}
					if from.Obj().Pkg().Path() != core.PkgProto || to.Obj().Pkg().Path() != core.PkgProto {
						continue
					}
					if !fam[from.Obj().Name()] || !fam[to.Obj().Name()] {
						continue
					}
					n++
					if from.Obj() != to.Obj() {
						bad = true
						c.R.Bad(rule, core.FuncName(fn)+"/"+from.Obj().Name()+"->"+to.Obj().Name(), cfg, p.Pos(cv.Pos()), "a "+from.Obj().Name()+" value is converted to "+to.Obj().Name()+": the narrower type's range (and epoch handling) silently applies")
					}
				}
			}
		}
		// converters are used with their own column: ColX methods call ToX only
		pairs := map[string]string{"ColDate": "ToDate", "ColDate32": "ToDate32", "ColDateTime": "ToDateTime", "ColDateTime64": "ToDateTime64"}
		for col, conv := range pairs {
			named := p.NamedType(core.PkgProto, col)
			if named == nil {
				continue
			}
			for i := 0; i < named.NumMethods(); i++ {
				fn := p.Prog.FuncValue(named.Method(i))
				if fn == nil || fn.Blocks == nil {
					continue
				}
				for _, call := range core.Calls(fn) {
					f := core.CalleeFunc(call)
					if f == nil || f.Pkg() == nil || f.Pkg().Path() != core.PkgProto || !strings.HasPrefix(f.Name(), "ToDate") {
						continue
					}
					n++
					if f.Name() != conv {
						bad = true
						c.R.Bad(rule, core.CallKey(fn, call), cfg, p.Pos(call.Pos()), col+" converts through "+f.Name()+" instead of "+conv)
					}
				}
			}
		}
		if !bad {
			c.R.Ok(rule, "temporal family", cfg, "", sprintf("%d conversion sites, each within its own type", n))
		}
	}()
	c.R.Assumptions = append(c.R.Assumptions,
		"thin claim: the statement is about numeric results over value ranges and is undecided as a whole; decided: the interval table against the statement's oracle, absence of truncating day division without sign handling, absence of int64-nanosecond intermediates for DateTime64, byte-order agreement of the IPv4 pair, no cross-type conversion inside the temporal family; not decided: exactness of every other conversion (Precision.Scale, 128/256-bit helpers, decimals)")
}

func hasDivOrRem(v ssa.Value) bool {
	return core.DependsOn(v, func(x ssa.Value) bool {
		bo, ok := x.(*ssa.BinOp)
		return ok && (bo.Op == token.QUO || bo.Op == token.REM)
	}, false)
}

// binaryOrder returns the encoding/binary byte order type and accessor used in fn.
func binaryOrder(fn *ssa.Function) (string, string) {
	fns := []*ssa.Function{fn}
	for _, call := range core.Calls(fn) {
		if g := core.StaticFn(call); g != nil && g.Blocks != nil && pkgOf(g) != nil && pkgOf(g).Path() == core.PkgProto {
			fns = append(fns, g)
		}
	}
	for _, g := range fns {
		for _, call := range core.Calls(g) {
			f := core.CalleeFunc(call)
			if f == nil || f.Pkg() == nil || f.Pkg().Path() != "encoding/binary" {
				continue
			}
			if n := core.RecvNamed(f); n != nil {
				w := strings.TrimPrefix(strings.TrimPrefix(f.Name(), "Put"), "Uint")
				return n.Obj().Name(), w
			}
		}
	}
	// the same order written with shifts: [4]byte{byte(v >> 24), byte(v >> 16), byte(v >> 8), byte(v)} is
	// big endian, v = uint32(b[0])<<24 | ... likewise; the map index -> shift is read off the stores / ors
	for _, g := range fns {
		shifts := map[int64]int64{}
		for _, b := range g.Blocks {
			for _, in := range b.Instrs {
				switch x := in.(type) {
				case *ssa.Store:
					ia, ok := x.Addr.(*ssa.IndexAddr)
					if !ok {
						continue
					}
					idx, okI := core.ConstInt(ia.Index)
					if !okI {
						continue
					}
					v := stripConv(x.Val)
					sh := int64(0)
					if bo, ok := v.(*ssa.BinOp); ok && bo.Op == token.SHR {
						if k, okK := core.ConstInt(bo.Y); okK {
							sh = k
						} else {
							continue
						}
					} else if _, isParam := stripConv(v).(*ssa.Parameter); !isParam {
						continue
					}
					shifts[idx] = sh
				case *ssa.BinOp:
					// uint32(b[i]) << s
					if x.Op != token.SHL {
						continue
					}
					k, okK := core.ConstInt(x.Y)
					if !okK {
						continue
					}
					if u, ok := stripConv(x.X).(*ssa.UnOp); ok {
						if ia, ok := u.X.(*ssa.IndexAddr); ok {
							if idx, okI := core.ConstInt(ia.Index); okI {
								shifts[idx] = k
							}
						}
					}
					if ixv, ok := stripConv(x.X).(*ssa.Index); ok {
						if idx, okI := core.ConstInt(ixv.Index); okI {
							shifts[idx] = k
						}
					}
				}
			}
		}
		if len(shifts) >= 3 {
			n := int64(len(shifts))
			if _, has0 := shifts[n]; !has0 && len(shifts) == 3 {
				n = 4 // the unshifted byte is not a shift instruction
			}
			big, little := true, true
			for i, sh := range shifts {
				if sh != 8*(n-1-i) {
					big = false
				}
				if sh != 8*i {
					little = false
				}
			}
			w := sprintf("%d", 8*n)
			switch {
			case big:
				return "bigEndian", w
			case little:
				return "littleEndian", w
			}
		}
	}
	return "", ""
}

func stripConv(v ssa.Value) ssa.Value {
	for {
		switch x := v.(type) {
		case *ssa.Convert:
			v = x.X
		case *ssa.ChangeType:
			v = x.X
		default:
			return v
		}
	}
}

func ruleIPCalls(c *Ctx, p *core.Program, rule string, fn *ssa.Function, allowed map[string]bool) {
	cfg := p.Cfg.Name
	key := core.FuncName(fn)
	for _, call := range core.Calls(fn) {
		f := core.CalleeFunc(call)
		if f == nil {
			if _, isBuiltin := call.Common().Value.(*ssa.Builtin); isBuiltin {
				continue
			}
			c.R.Unk(rule, key, cfg, p.Pos(call.Pos()), "dynamic call in an IP conversion helper")
			return
		}
		// a helper of package proto that itself stays within the whitelist (v.octets())
		if g := core.StaticFn(call); g != nil && g.Blocks != nil && pkgOf(g) != nil && pkgOf(g).Path() == core.PkgProto && !allowed[f.Name()] {
			inner := true
			for _, hc := range core.Calls(g) {
				hf := core.CalleeFunc(hc)
				if hf == nil {
					if _, isBuiltin := hc.Common().Value.(*ssa.Builtin); !isBuiltin {
						inner = false
					}
					continue
				}
				if !allowed[hf.Name()] {
					inner = false
				}
			}
			if inner {
				continue
			}
		}
		if !allowed[f.Name()] {
			c.R.Bad(rule, key, cfg, p.Pos(call.Pos()), "calls "+f.FullName()+": not one of the bijective netip / binary accessors, so distinct addresses can map to the same result (e.g. Unmap turns ::ffff:a.b.c.d into the 4-byte a.b.c.d) and the To*/From* pair no longer round-trips")
			return
		}
	}
	c.R.Ok(rule, key, cfg, p.Pos(fn.Pos()), "only bijective accessors")
}

// ruleScale (C20.scale / C01.scale): Precision.Scale is 10^(9-p).
func ruleScale(c *Ctx, p *core.Program, rule string) {
	cfg := p.Cfg.Name
	c.R.Rule(rule, "Precision.Scale() is the tick length in nanoseconds, 10^(9-p): recognised as (a) the accumulation loop d = 1; for i = 9; i > p; i-- { d *= 10 } - initial value 1, factor 10, and a unit-step counter whose trip count (from its initial value, step and loop test, all affine in p) is 9-p - or (b) a lookup in a package-level table whose literal is folded and compared entry by entry with 10^(9-i), i = 0..9; any other form is undecided")
	func() {
		sc := p.Method(core.PkgProto, "Precision", "Scale")
		if !c.must(p, "proto.Precision.Scale", sc != nil) {
			return
		}
		key := "proto.(Precision).Scale"
		pow := func(n int64) int64 {
			r := int64(1)
			for ; n > 0; n-- {
				r *= 10
			}
			return r
		}
		// Scale may be a conversion of another method of Precision that holds the table (Duration):
		// the table is looked for there when Scale itself only calls it and converts the result
		if len(sc.Blocks) == 1 {
			if ret, ok := sc.Blocks[0].Instrs[len(sc.Blocks[0].Instrs)-1].(*ssa.Return); ok && len(ret.Results) == 1 {
				if cl, ok := stripConv(ret.Results[0]).(*ssa.Call); ok {
					if g := core.StaticFn(cl); g != nil && g.Blocks != nil && pkgOf(g) != nil && pkgOf(g).Path() == core.PkgProto && len(cl.Call.Args) == 1 {
						if _, isParam := stripConv(cl.Call.Args[0]).(*ssa.Parameter); isParam {
							sc = g
						}
					}
				}
			}
		}
		// (b) table form
		for _, b := range sc.Blocks {
			for _, in := range b.Instrs {
				ia, ok := in.(*ssa.IndexAddr)
				if !ok {
					continue
				}
				g, ok := ia.X.(*ssa.Global)
				if !ok {
					continue
				}
				if _, isParam := stripConv(ia.Index).(*ssa.Parameter); !isParam {
					c.R.Unk(rule, key, cfg, p.Pos(ia.Pos()), "table index is not the precision itself")
					return
				}
				tbl := map[int64]int64{}
				if init := g.Pkg.Func("init"); init != nil {
					for _, ib := range init.Blocks {
						for _, ii := range ib.Instrs {
							st, ok := ii.(*ssa.Store)
							if !ok {
								continue
							}
							ea, ok := st.Addr.(*ssa.IndexAddr)
							if !ok || ea.X != ssa.Value(g) {
								continue
							}
							i, ok1 := core.ConstInt(ea.Index)
							v, ok2 := core.ConstInt(st.Val)
							if ok1 && ok2 {
								tbl[i] = v
							}
						}
					}
				}
				var wrong []string
				for i := int64(0); i <= 9; i++ {
					if tbl[i] != pow(9-i) {
						wrong = append(wrong, sprintf("[%d] = %d, want %d", i, tbl[i], pow(9-i)))
					}
				}
				if len(wrong) > 0 {
					c.R.Bad(rule, key, cfg, p.Pos(ia.Pos()), "scale table "+g.Name()+": "+strings.Join(wrong, "; ")+" - DateTime64 values of that precision are off by a power of ten")
				} else {
					c.R.Ok(rule, key, cfg, p.Pos(ia.Pos()), "table "+g.Name()+"[p] = 10^(9-p) for p = 0..9")
				}
				return
			}
		}
		// (a) loop form: accumulator 1, *10; a counter stepping by one whose trip count, computed from its
		// initial value, step and loop test as expressions affine in p, is 9 - p
		type aff struct{ a, b int64 }
		var affine func(v ssa.Value, d int) (aff, bool)
		affine = func(v ssa.Value, d int) (aff, bool) {
			v = stripConv(v)
			if d > 6 {
				return aff{}, false
			}
			if k, ok := core.ConstInt(v); ok {
				return aff{k, 0}, true
			}
			if _, ok := v.(*ssa.Parameter); ok {
				return aff{0, 1}, true
			}
			if bo, ok := v.(*ssa.BinOp); ok && (bo.Op == token.ADD || bo.Op == token.SUB) {
				x, ok1 := affine(bo.X, d+1)
				y, ok2 := affine(bo.Y, d+1)
				if ok1 && ok2 {
					if bo.Op == token.ADD {
						return aff{x.a + y.a, x.b + y.b}, true
					}
					return aff{x.a - y.a, x.b - y.b}, true
				}
			}
			return aff{}, false
		}
		var acc *ssa.Phi
		var mul *ssa.BinOp
		type counter struct {
			ph   *ssa.Phi
			init aff
			step int64
		}
		var ctrs []counter
		for _, b := range sc.Blocks {
			for _, in := range b.Instrs {
				ph, ok := in.(*ssa.Phi)
				if !ok || len(ph.Edges) != 2 {
					continue
				}
				for i, e := range ph.Edges {
					bo, ok := e.(*ssa.BinOp)
					if !ok || bo.X != ssa.Value(ph) {
						continue
					}
					k, okk := core.ConstInt(bo.Y)
					if !okk {
						continue
					}
					if k0, ok0 := core.ConstInt(ph.Edges[1-i]); ok0 && bo.Op == token.MUL && k == 10 && k0 == 1 {
						acc, mul = ph, bo
					}
					if init, ok0 := affine(ph.Edges[1-i], 0); ok0 && k == 1 && (bo.Op == token.SUB || bo.Op == token.ADD) {
						step := int64(1)
						if bo.Op == token.SUB {
							step = -1
						}
						ctrs = append(ctrs, counter{ph, init, step})
					}
				}
			}
		}
		if acc == nil || len(ctrs) == 0 {
			c.R.Unk(rule, key, cfg, p.Pos(sc.Pos()), "neither the accumulation loop (1, *10, a counter stepping by one) nor a table lookup recognised")
			return
		}
		// loop test on the counter: the edge that reaches the multiplication continues the loop
		var trip *aff
		okRet := false
		for _, b := range sc.Blocks {
			for _, in := range b.Instrs {
				switch x := in.(type) {
				case *ssa.If:
					bo, ok := x.Cond.(*ssa.BinOp)
					if !ok {
						continue
					}
					for _, ct := range ctrs {
						op, other := bo.Op, bo.Y
						if stripConv(bo.Y) == ssa.Value(ct.ph) {
							other = bo.X
							switch op {
							case token.LSS:
								op = token.GTR
							case token.LEQ:
								op = token.GEQ
							case token.GTR:
								op = token.LSS
							case token.GEQ:
								op = token.LEQ
							}
						} else if stripConv(bo.X) != ssa.Value(ct.ph) {
							continue
						}
						bound, okb := affine(other, 0)
						if !okb {
							continue
						}
						cont := b.Succs[0]
						if !(cont == mul.Block() || cont.Dominates(mul.Block())) {
							continue
						}
						var t aff
						switch {
						case ct.step < 0 && op == token.GTR:
							t = aff{ct.init.a - bound.a, ct.init.b - bound.b}
						case ct.step < 0 && op == token.GEQ:
							t = aff{ct.init.a - bound.a + 1, ct.init.b - bound.b}
						case ct.step > 0 && op == token.LSS:
							t = aff{bound.a - ct.init.a, bound.b - ct.init.b}
						case ct.step > 0 && op == token.LEQ:
							t = aff{bound.a - ct.init.a + 1, bound.b - ct.init.b}
						default:
							continue
						}
						trip = &t
					}
				case *ssa.Return:
					if len(x.Results) == 1 && x.Results[0] == ssa.Value(acc) {
						okRet = true
					}
				}
			}
		}
		if trip == nil {
			c.R.Unk(rule, key, cfg, p.Pos(sc.Pos()), "accumulation loop found but its test is not a comparison of the counter with an expression affine in the precision")
			return
		}
		if trip.a == 9 && trip.b == -1 && okRet {
			c.R.Ok(rule, key, cfg, p.Pos(sc.Pos()), "d = 1; 9-p multiplications by 10")
		} else {
			c.R.Bad(rule, key, cfg, p.Pos(sc.Pos()), sprintf("accumulation loop multiplies by ten %d%+d*p times (want 9-p) and returns the accumulator: %v - Scale() != 10^(9-p)", trip.a, trip.b, okRet))
		}
	}()
}

// reachesInProto: fn, or a proto function it calls statically (to the given depth), calls a function satisfying pred.
func reachesInProto(fn *ssa.Function, pred func(*types.Func) bool, depth int) bool {
	seen := map[*ssa.Function]bool{}
	var rec func(f *ssa.Function, d int) bool
	rec = func(f *ssa.Function, d int) bool {
		if f == nil || seen[f] || d > depth || f.Blocks == nil {
			return false
		}
		seen[f] = true
		for _, call := range core.Calls(f) {
			if cf := core.CalleeFunc(call); cf != nil && pred(cf) {
				return true
			}
			if sf := core.StaticFn(call); sf != nil && pkgOf(sf) != nil && pkgOf(sf).Path() == core.PkgProto && rec(sf, d+1) {
				return true
			}
		}
		return false
	}
	return rec(fn, 0)
}

// ---- derived-fields (C20 / C16): a field computed from another is recomputed wherever that one changes
func ruleDerivedFields(c *Ctx, p *core.Program, rule string) {
	c.R.Rule(rule, "cached derived state stays in step: when a method of a column type stores a field D whose value is computed from the value it stores into field P of the same receiver (a tick scale cached next to the precision), every other method of that type that stores P also stores D - otherwise the column reports the new parameter (Infer sets Precision) while converting with the value derived from the old one (Row and Append use the stale scale: 2024 reads as 1970)")
	cfg := p.Cfg.Name
	type st struct {
		val ssa.Value
		in  ssa.Instruction
	}
	n := 0
	for _, ct := range columnTypes(p) {
		if _, ok := ct.Underlying().(*types.Struct); !ok {
			continue
		}
		stores := map[*ssa.Function]map[string][]st{}
		var methods []*ssa.Function
		for i := 0; i < ct.NumMethods(); i++ {
			fn := p.Prog.FuncValue(ct.Method(i))
			if fn == nil || fn.Blocks == nil || len(fn.Params) == 0 {
				continue
			}
			if _, isPtr := fn.Params[0].Type().Underlying().(*types.Pointer); !isPtr {
				continue
			}
			m := map[string][]st{}
			for _, b := range fn.Blocks {
				for _, in := range b.Instrs {
					s, ok := in.(*ssa.Store)
					if !ok {
						continue
					}
					fa, ok := s.Addr.(*ssa.FieldAddr)
					if !ok || fa.X != ssa.Value(fn.Params[0]) {
						continue
					}
					name := fieldNameOnly(fa.X.Type(), fa.Field)
					m[name] = append(m[name], st{s.Val, in})
				}
			}
			if len(m) > 0 {
				stores[fn] = m
				methods = append(methods, fn)
			}
		}
		sortFns(methods)
		type pair struct{ p, d string }
		pairs := map[pair]*ssa.Function{}
		for _, fn := range methods {
			m := stores[fn]
			for dName, ds := range m {
				for pName, ps := range m {
					if dName == pName {
						continue
					}
					for _, d := range ds {
						for _, pv := range ps {
							if _, isConst := pv.val.(*ssa.Const); isConst {
								continue
							}
							if d.val != pv.val && core.DependsOn(d.val, func(v ssa.Value) bool { return v == pv.val }, true) {
								// and not the other way round (two views of one source are not a derivation)
								if !core.DependsOn(pv.val, func(v ssa.Value) bool { return v == d.val }, true) {
									if _, seen := pairs[pair{pName, dName}]; !seen {
										pairs[pair{pName, dName}] = fn
									}
								}
							}
						}
					}
				}
			}
		}
		for pr, origin := range pairs {
			for _, fn := range methods {
				if fn == origin {
					continue
				}
				m := stores[fn]
				if len(m[pr.p]) == 0 {
					continue
				}
				n++
				key := sprintf("%s.%s/%s-with-%s", ct.Obj().Name(), fn.Name(), pr.d, pr.p)
				// D may be an object that is told about the new value instead of being replaced: a call on the
				// loaded value of D that is handed the value stored to P (c.Data.Infer(t) next to c.DataType = t)
				told := false
				for _, call := range core.Calls(fn) {
					cc := call.Common()
					recvV := cc.Value
					if !cc.IsInvoke() && len(cc.Args) > 0 {
						recvV = cc.Args[0]
					}
					fromD := core.DependsOn(recvV, func(v ssa.Value) bool {
						fa, ok := v.(*ssa.FieldAddr)
						return ok && fa.X == ssa.Value(fn.Params[0]) && fieldNameOnly(fa.X.Type(), fa.Field) == pr.d
					}, false)
					if !fromD {
						continue
					}
					for _, a := range cc.Args {
						for _, pv := range m[pr.p] {
							if a == pv.val {
								told = true
							}
						}
					}
				}
				if len(m[pr.d]) > 0 {
					c.R.Ok(rule, key, cfg, p.Pos(fn.Pos()), "stores both")
				} else if told {
					c.R.Ok(rule, key, cfg, p.Pos(fn.Pos()), "hands the new value to the object held in "+pr.d)
				} else {
					c.R.Bad(rule, key, cfg, p.Pos(m[pr.p][0].in.Pos()), sprintf("%s.%s stores %s but not %s, which %s computes from it: the derived value goes stale", ct.Obj().Name(), fn.Name(), pr.p, pr.d, origin.Name()))
				}
			}
		}
	}
	c.R.Count("derived-field obligations["+cfg+"]", n)
}

func sortFns(fs []*ssa.Function) {
	sort.Slice(fs, func(i, j int) bool { return fs[i].Name() < fs[j].Name() })
}

// ---- per-element (C20): a batch conversion takes nothing from one element for all the others
func rulePerElementZone(c *Ctx, p *core.Program, rule string) {
	c.R.Rule(rule, "batch conversions treat every element on its own: in a proto function that loops over a []time.Time parameter, nothing computed from a fixed element of that slice (vs[0].Zone(), vs[0].Location() ...) is used inside the loop - the zone offset of the first value applied to all puts values of another zone (or of the other side of a DST change) on the wrong day, and AppendArr disagrees with Append")
	cfg := p.Cfg.Name
	n := 0
	for _, fn := range p.Funcs() {
		if pkgOf(fn) == nil || pkgOf(fn).Path() != core.PkgProto || fn.Blocks == nil {
			continue
		}
		var vs *ssa.Parameter
		for _, pr := range fn.Params {
			if sl, ok := pr.Type().Underlying().(*types.Slice); ok && core.IsNamed(sl.Elem(), "time", "Time") {
				vs = pr
			}
		}
		if vs == nil {
			continue
		}
		n++
		key := core.FuncName(fn)
		fixedElem := func(v ssa.Value) bool {
			u, ok := v.(*ssa.UnOp)
			if !ok || u.Op != token.MUL {
				return false
			}
			ia, ok := u.X.(*ssa.IndexAddr)
			if !ok || ia.X != ssa.Value(vs) {
				return false
			}
			_, isConst := core.ConstInt(ia.Index)
			return isConst
		}
		var bad ssa.Instruction
		for _, b := range fn.Blocks {
			for _, in := range b.Instrs {
				if !core.InLoop(in) {
					continue
				}
				if _, isPhi := in.(*ssa.Phi); isPhi {
					continue
				}
				for _, op := range in.Operands(nil) {
					if *op == nil {
						continue
					}
					// computed outside the loop from a fixed element
					if oi, ok := (*op).(ssa.Instruction); ok && core.InLoop(oi) {
						continue
					}
					if core.DependsOn(*op, fixedElem, true) {
						bad = in
					}
				}
			}
		}
		if bad != nil {
			c.R.Bad(rule, key, cfg, p.Pos(bad.Pos()), "a value computed from one fixed element of the batch (its zone offset) is used for every element of the loop: elements in another zone or on the other side of a DST change are converted with the wrong offset")
		} else {
			c.R.Ok(rule, key, cfg, p.Pos(fn.Pos()), "nothing from a fixed element is used inside the loop")
		}
	}
	c.R.Count("batch conversions over []time.Time["+cfg+"]", n)
	c.R.Floor(rule, cfg, n, 3)
}

// ruleRowUniform (C20): Row(i) of a date/time column converts the raw value, whatever it is.
func ruleRowUniform(c *Ctx, p *core.Program, rule string) {
	c.R.Rule(rule, "every value returned by Row(i) of a date/time column (ColDate, ColDate32, ColDateTime, ColDateTime64 and their raw variants) derives from the element type's Time() conversion of the stored element: no exit returns a constant or freshly built time.Time for a particular raw value - raw 0 is 1970-01-01T00:00:00Z, a legitimate instant, not `no value`")
	cfg := p.Cfg.Name
	n := 0
	for _, ct := range columnTypes(p) {
		name := ct.Obj().Name()
		if !strings.HasPrefix(name, "ColDate") {
			continue
		}
		fn := methodOf(p, ct, "Row")
		if fn == nil || fn.Blocks == nil {
			continue
		}
		if res := fn.Signature.Results(); res.Len() != 1 || !core.IsNamed(res.At(0).Type(), "time", "Time") {
			continue
		}
		n++
		key := name + ".Row"
		bad := false
		for _, b := range fn.Blocks {
			for _, in := range b.Instrs {
				r, ok := in.(*ssa.Return)
				if !ok || len(r.Results) != 1 {
					continue
				}
				fromTime := core.DependsOn(r.Results[0], func(x ssa.Value) bool {
					cl, ok := x.(*ssa.Call)
					if !ok {
						return false
					}
					f := core.CalleeFunc(cl)
					return f != nil && f.Name() == "Time" && f.Pkg() != nil && f.Pkg().Path() == core.PkgProto
				}, true)
				if !fromTime {
					bad = true
					c.R.Bad(rule, key, cfg, p.Pos(r.Pos()), "an exit of Row returns a time that is not the conversion of the stored element: a particular raw value (0) is turned into a sentinel (year 1, UTC) although it is a valid instant of the type's range")
				}
			}
		}
		if !bad {
			c.R.Ok(rule, key, cfg, p.Pos(fn.Pos()), "every exit returns the element's Time() conversion")
		}
	}
	c.R.Count("date/time Row methods", n)
	c.R.Floor(rule, cfg, n, 4)
}

// ruleTicksOfArgument (C20): conversions to ticks read the instant they were given.
func ruleTicksOfArgument(c *Ctx, p *core.Program, rule string) {
	c.R.Rule(rule, "the To* conversions of package proto (ToDateTime64, ToDateTime, ToDate, ToDate32) read Unix() / Nanosecond() / zone of the time.Time they were given, not of a rounded, truncated or shifted copy: ticks are floored - an instant is never stored later than it happened; rounding to the nearest tick moves the upper half of the last tick of a day into the next calendar day")
	cfg := p.Cfg.Name
	n := 0
	for _, name := range []string{"ToDateTime64", "ToDateTime", "ToDate", "ToDate32"} {
		fn := p.Func(core.PkgProto, name)
		if fn == nil || fn.Blocks == nil {
			continue
		}
		n++
		bad := false
		for f := range core.StaticReach(fn, 1) {
			if pkgOf(f) == nil || pkgOf(f).Path() != core.PkgProto {
				continue
			}
			for _, call := range core.Calls(f) {
				cf := core.CalleeFunc(call)
				if cf == nil || cf.Pkg() == nil || cf.Pkg().Path() != "time" {
					continue
				}
				sig, _ := cf.Type().(*types.Signature)
				if sig == nil || sig.Recv() == nil || !core.IsNamed(sig.Recv().Type(), "time", "Time") {
					continue
				}
				switch cf.Name() {
				case "Round", "Truncate", "Add", "AddDate":
					bad = true
					c.R.Bad(rule, name, cfg, p.Pos(call.Pos()), sprintf("%s derives the stored value from t.%s(...) instead of t itself: the stored instant can lie later than (or on another day than) the one given", name, cf.Name()))
				}
			}
		}
		if !bad {
			c.R.Ok(rule, name, cfg, p.Pos(fn.Pos()), "reads the argument's own Unix()/Nanosecond()/zone")
		}
	}
	c.R.Count("To* conversions", n)
	c.R.Floor(rule, cfg, n, 3)
}

// intervalCaseFold: what Interval.Add does for scale constant kv, found by pruning the CFG under Scale == kv
// (comparisons of the scale - the receiver's field, or the parameter of a helper of IntervalScale - with
// constants, and the boolean result of such a helper) instead of reading one switch: the single Time.Add /
// Time.AddDate call that stays reachable, with its arguments reduced to coefficient * Value (phis resolved
// over the edges that stay feasible, a duration returned by the helper folded to its constant).
func intervalCaseFold(add *ssa.Function, kv int64) (call *ssa.Call, coef func(v ssa.Value) (int64, bool, bool), ok bool) {
	isScale := func(fn *ssa.Function, v ssa.Value) bool {
		v = stripConv(v)
		if core.FieldOrigin(v, 0) == "Interval.Scale" {
			return true
		}
		if f, isF := v.(*ssa.Field); isF && fieldNameOnly(f.X.Type(), f.Field) == "Scale" {
			return true
		}
		if pr, isP := v.(*ssa.Parameter); isP && fn != add && core.IsNamed(pr.Type(), core.PkgProto, "IntervalScale") {
			return true
		}
		return false
	}
	// helper summaries: result constants of a helper of the scale under scale == kv
	type summary struct {
		res []*ssa.Const
	}
	sums := map[*ssa.Call]*summary{}
	var atomIn func(fn *ssa.Function) func(cond ssa.Value) int
	atomIn = func(fn *ssa.Function) func(cond ssa.Value) int {
		return func(cond ssa.Value) int {
			if bo, isB := cond.(*ssa.BinOp); isB && (bo.Op == token.EQL || bo.Op == token.NEQ) {
				var k int64
				var okc bool
				switch {
				case isScale(fn, bo.X):
					k, okc = core.ConstInt(bo.Y)
				case isScale(fn, bo.Y):
					k, okc = core.ConstInt(bo.X)
				}
				if okc {
					if (k == kv) == (bo.Op == token.EQL) {
						return 1
					}
					return 0
				}
			}
			if ex, isE := cond.(*ssa.Extract); isE {
				if cl, isC := ex.Tuple.(*ssa.Call); isC {
					if s := sums[cl]; s != nil && ex.Index < len(s.res) && s.res[ex.Index] != nil {
						if b, isBool := s.res[ex.Index].Value, true; isBool && b != nil {
							if b.String() == "true" {
								return 1
							}
							if b.String() == "false" {
								return 0
							}
						}
					}
				}
			}
			return -1
		}
	}
	reachable := func(fn *ssa.Function, filter core.EdgeFilter) map[*ssa.BasicBlock]bool {
		seen := map[*ssa.BasicBlock]bool{fn.Blocks[0]: true}
		work := []*ssa.BasicBlock{fn.Blocks[0]}
		for len(work) > 0 {
			b := work[len(work)-1]
			work = work[:len(work)-1]
			for i, s := range b.Succs {
				if filter(b, i) && !seen[s] {
					seen[s] = true
					work = append(work, s)
				}
			}
		}
		return seen
	}
	for _, c := range core.Calls(add) {
		cl, isC := c.(*ssa.Call)
		g := core.StaticFn(c)
		if !isC || g == nil || g.Blocks == nil || pkgOf(g) == nil || pkgOf(g).Path() != core.PkgProto || len(g.Params) == 0 || !core.IsNamed(g.Params[0].Type(), core.PkgProto, "IntervalScale") {
			continue
		}
		if len(cl.Call.Args) == 0 || !isScale(add, cl.Call.Args[0]) {
			continue
		}
		gr := reachable(g, core.FeasibleUnder(g, atomIn(g)))
		var rets []*ssa.Return
		for b := range gr {
			if r, isR := b.Instrs[len(b.Instrs)-1].(*ssa.Return); isR {
				rets = append(rets, r)
			}
		}
		if len(rets) != 1 {
			continue
		}
		s := &summary{}
		for _, rv := range rets[0].Results {
			k, _ := rv.(*ssa.Const)
			s.res = append(s.res, k)
		}
		sums[cl] = s
	}
	filter := core.FeasibleUnder(add, atomIn(add))
	reach := reachable(add, filter)
	var calls []*ssa.Call
	for b := range reach {
		for _, in := range b.Instrs {
			if cl, isC := in.(*ssa.Call); isC {
				if f := core.CalleeFunc(cl); f != nil && (isTimeMethod("Add")(f) || isTimeMethod("AddDate")(f)) {
					calls = append(calls, cl)
				}
			}
		}
	}
	if len(calls) != 1 {
		return nil, nil, false
	}
	var co func(v ssa.Value, d int) (int64, bool, bool)
	co = func(v ssa.Value, d int) (int64, bool, bool) {
		if d > 10 {
			return 0, false, false
		}
		if k, isK := core.ConstInt(v); isK {
			return k, false, true
		}
		switch x := v.(type) {
		case *ssa.Convert:
			return co(x.X, d+1)
		case *ssa.ChangeType:
			return co(x.X, d+1)
		case *ssa.BinOp:
			if x.Op == token.MUL {
				k1, u1, ok1 := co(x.X, d+1)
				k2, u2, ok2 := co(x.Y, d+1)
				if ok1 && ok2 && !(u1 && u2) {
					return k1 * k2, u1 || u2, true
				}
			}
		case *ssa.Phi:
			var got *[3]interface{}
			for i, e := range x.Edges {
				pb := x.Block().Preds[i]
				if !reach[pb] {
					continue
				}
				feasible := false
				for j, s := range pb.Succs {
					if s == x.Block() && filter(pb, j) {
						feasible = true
					}
				}
				if !feasible {
					continue
				}
				k, u, okk := co(e, d+1)
				if !okk {
					return 0, false, false
				}
				cur := [3]interface{}{k, u, true}
				if got != nil && *got != cur {
					return 0, false, false
				}
				got = &cur
			}
			if got != nil {
				return got[0].(int64), got[1].(bool), true
			}
		case *ssa.Extract:
			if cl, isC := x.Tuple.(*ssa.Call); isC {
				if s := sums[cl]; s != nil && x.Index < len(s.res) && s.res[x.Index] != nil {
					if k, isK := core.ConstInt(s.res[x.Index]); isK {
						return k, false, true
					}
				}
			}
		case *ssa.Field:
			if fieldNameOnly(x.X.Type(), x.Field) == "Value" {
				return 1, true, true
			}
		case *ssa.UnOp:
			if x.Op == token.MUL {
				if fa, isFA := x.X.(*ssa.FieldAddr); isFA && fieldNameOnly(fa.X.Type(), fa.Field) == "Value" {
					return 1, true, true
				}
			}
		}
		return 0, false, false
	}
	return calls[0], func(v ssa.Value) (int64, bool, bool) { return co(v, 0) }, true
}

// ruleDayCarry (C20): a carry into the next day happens at 86400 seconds, not after.
func ruleDayCarry(c *Ctx, p *core.Program, rule string) {
	c.R.Rule(rule, "in the day conversions of package proto (ToDate, ToDate32 and the helpers they call) a comparison of a seconds value with the length of a day (the constant 86400) that decides whether the day number is stepped treats 86400 itself as the next day: `x >= 86400` / `x < 86400`, never `x > 86400` / `x <= 86400` - seconds-of-day plus a zone offset equal to exactly one day is local midnight, and with `>` an instant at 00:00:00 in a zone east of UTC is stored as the previous calendar day")
	cfg := p.Cfg.Name
	n, nf := 0, 0
	seen := map[*ssa.Function]bool{}
	for _, name := range []string{"ToDate", "ToDate32"} {
		root := p.Func(core.PkgProto, name)
		if root == nil {
			continue
		}
		for fn := range core.StaticReach(root, 2) {
			if fn.Blocks == nil || pkgOf(fn) == nil || pkgOf(fn).Path() != core.PkgProto || seen[fn] {
				continue
			}
			seen[fn] = true
			nf++
			for _, b := range fn.Blocks {
				for _, in := range b.Instrs {
					bo, ok := in.(*ssa.BinOp)
					if !ok {
						continue
					}
					ky, oky := core.ConstInt(bo.Y)
					kx, okx := core.ConstInt(bo.X)
					op := bo.Op
					if okx && kx == 86400 && !oky {
						// 86400 OP x  ==  x OP' 86400
						switch op {
						case token.LSS:
							op = token.GTR
						case token.GTR:
							op = token.LSS
						case token.LEQ:
							op = token.GEQ
						case token.GEQ:
							op = token.LEQ
						}
					} else if !(oky && ky == 86400) {
						continue
					}
					switch op {
					case token.GTR, token.LEQ:
						n++
						c.R.Bad(rule, core.FuncName(fn)+sprintf("/cmp#%d", n), cfg, p.Pos(bo.Pos()), "a seconds value is compared with one day using a strict/non-strict pair that leaves exactly 86400 on the wrong side: local midnight east of UTC lands on the previous day")
					case token.GEQ, token.LSS:
						n++
						c.R.Ok(rule, core.FuncName(fn)+sprintf("/cmp#%d", n), cfg, p.Pos(bo.Pos()), "86400 counts as the next day")
					}
				}
			}
		}
	}
	if n == 0 {
		c.R.Ok(rule, "day-conversions", cfg, "", sprintf("%d functions behind ToDate / ToDate32 examined, no carry comparison with the day length", nf)).Trivial = true
	}
	c.R.Count("functions behind the day conversions", nf)
	c.R.Floor(rule, cfg, nf, 2)
}

// ruleResetKeepsParameters (C20 / C16 / C18): Reset empties the rows and nothing else.
func ruleResetKeepsParameters(c *Ctx, p *core.Program, rule string) {
	c.R.Rule(rule, "for every column struct of package proto that has an Infer method: Reset does not assign a field that Infer assigns (the type parameters - interval scale, precision, location, enum definition, fixed size) and does not overwrite the whole struct: the client decodes every block as Infer -> type check -> Reset -> DecodeColumn, so a Reset that returns the column to its zero state throws away what Infer has just established - an Interval column reads every unit as seconds")
	cfg := p.Cfg.Name
	n := 0
	for _, ct := range columnTypes(p) {
		if _, ok := ct.Underlying().(*types.Struct); !ok {
			continue
		}
		inf, rs := methodOf(p, ct, "Infer"), methodOf(p, ct, "Reset")
		if inf == nil || rs == nil || inf.Blocks == nil || rs.Blocks == nil || len(rs.Params) == 0 {
			continue
		}
		fieldsOf := func(fn *ssa.Function) (map[string]bool, bool) {
			out := map[string]bool{}
			whole := false
			for g := range core.StaticReach(fn, 1) {
				if g.Blocks == nil || core.RecvNamed2(g) == nil || core.RecvNamed2(g).Obj() != ct.Obj() || len(g.Params) == 0 {
					continue
				}
				for _, b := range g.Blocks {
					for _, in := range b.Instrs {
						st, ok := in.(*ssa.Store)
						if !ok {
							continue
						}
						if st.Addr == ssa.Value(g.Params[0]) {
							whole = true
						}
						if fa, ok := st.Addr.(*ssa.FieldAddr); ok && fa.X == ssa.Value(g.Params[0]) {
							out[fieldNameOnly(fa.X.Type(), fa.Field)] = true
						}
					}
				}
			}
			return out, whole
		}
		params, _ := fieldsOf(inf)
		if len(params) == 0 {
			continue
		}
		n++
		key := ct.Obj().Name() + ".Reset"
		resets, whole := fieldsOf(rs)
		var clash []string
		for f := range resets {
			if params[f] {
				// storage that Infer also (re)creates is fine when Reset only truncates it
				clash = append(clash, f)
			}
		}
		sort.Strings(clash)
		// a field both set by Infer and truncated by Reset is row storage only if Reset's value is a re-slice of it
		var real []string
		for _, f := range clash {
			onlyTrunc := true
			for _, b := range rs.Blocks {
				for _, in := range b.Instrs {
					st, ok := in.(*ssa.Store)
					if !ok {
						continue
					}
					fa, ok := st.Addr.(*ssa.FieldAddr)
					if !ok || fa.X != ssa.Value(rs.Params[0]) || fieldNameOnly(fa.X.Type(), fa.Field) != f {
						continue
					}
					if _, isSl := st.Val.(*ssa.Slice); !isSl {
						onlyTrunc = false
					}
				}
			}
			if !onlyTrunc {
				real = append(real, f)
			}
		}
		switch {
		case whole:
			c.R.Bad(rule, key, cfg, p.Pos(rs.Pos()), ct.Obj().Name()+".Reset overwrites the whole column value: the parameters set by Infer ("+strings.Join(strKeys(params), ", ")+") are back to their zero values before the block is decoded")
		case len(real) > 0:
			c.R.Bad(rule, key, cfg, p.Pos(rs.Pos()), ct.Obj().Name()+".Reset assigns "+strings.Join(real, ", ")+", which Infer sets: the inferred parameters are lost before the block is decoded")
		default:
			c.R.Ok(rule, key, cfg, p.Pos(rs.Pos()), "keeps "+strings.Join(strKeys(params), ", "))
		}
	}
	c.R.Count("column structs with Infer and Reset["+cfg+"]", n)
	c.R.Floor(rule, cfg, n, 4)
}

func strKeys(m map[string]bool) []string {
	var out []string
	for k := range m {
		out = append(out, k)
	}
	sort.Strings(out)
	return out
}
