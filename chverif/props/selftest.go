package props

import (
	"os"
	"path/filepath"
	"runtime"
	"strings"

	"chverif/core"
)

// Mutant is a scripted one-place rewrite of /repo used to test a rule: the
// rule must report the mutated construct. Applied through a go/packages
// overlay; nothing is written or executed.
type Mutant struct {
	Name      string
	File      string // repo-relative
	Old, New  string // first occurrence of Old is replaced by New
	Nth       int    // 0: first occurrence; n>0: n-th (1-based)
	Rule      string // rule expected to fire
	Construct string // substring expected in the construct key ("" = any)
}

// SelfTests runs the mutants of a property (thorough tier only).
func SelfTests(c *Ctx, prop string) {
	runFixtures(c, prop)
	if !c.Thorough() || c.Overlay != nil {
		return
	}
	run := registry[prop]
	base := map[string]bool{}
	for _, o := range c.R.Obls {
		if o.Verdict != core.Discharged {
			base[o.Key()] = true
		}
	}
	for _, m := range mutants[prop] {
		st := core.SelfTest{Kind: "mutant", Name: m.Name, Rule: m.Rule, Expected: "violation of " + m.Rule + " at " + m.Construct}
		path := filepath.Join(c.Repo, m.File)
		src, err := os.ReadFile(path)
		if err != nil {
			st.Skipped, st.Got = true, "target file missing"
			c.R.SelfTests = append(c.R.SelfTests, st)
			continue
		}
		s := string(src)
		idx := -1
		from := 0
		for k := 0; k <= max(0, m.Nth-1); k++ {
			i := strings.Index(s[from:], m.Old)
			if i < 0 {
				idx = -1
				break
			}
			idx = from + i
			from = idx + len(m.Old)
		}
		if idx < 0 {
			st.Skipped, st.Got = true, "target text no longer present"
			c.R.SelfTests = append(c.R.SelfTests, st)
			continue
		}
		mut := s[:idx] + m.New + s[idx+len(m.Old):]
		rep := core.NewReport(prop, "quick", 0)
		mc := NewCtx(c.Repo, c.Verif, "quick", rep)
		mc.Overlay = map[string][]byte{path: []byte(mut)}
		func() {
			defer func() {
				if e := recover(); e != nil {
					rep.Fatalf("panic: %v", e)
				}
			}()
			run(mc)
		}()
		if len(rep.Fatal) > 0 {
			st.Got = "mutant does not load: " + rep.Fatal[0]
		} else {
			for _, o := range rep.Obls {
				if o.Verdict == core.Discharged || base[o.Key()] {
					continue
				}
				if o.Rule == m.Rule && strings.Contains(o.Construct, m.Construct) {
					st.OK = true
					st.Got = string(o.Verdict) + " " + o.Rule + " " + o.Construct
					break
				}
			}
			if !st.OK {
				st.Got = "no new report of the expected rule/construct"
				for _, o := range rep.Obls {
					if o.Verdict != core.Discharged && !base[o.Key()] {
						st.Got += "; other: " + o.Rule + " " + o.Construct
						break
					}
				}
			}
		}
		c.R.SelfTests = append(c.R.SelfTests, st)
		mc = nil
		runtime.GC()
	}
}
