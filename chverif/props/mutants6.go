package props

// Mutants for the rules added in seeding round 6 (same mechanism as mutants.go).

func init() {
	add := func(prop string, ms ...Mutant) { mutants[prop] = append(mutants[prop], ms...) }

	add("C01",
		Mutant{Name: "map-values-inferred-from-key-type", File: "proto/col_map.go", Old: "\t\tct := ColumnType(strings.TrimSpace(valtype))", New: "\t\t_ = valtype\n\t\tct := ColumnType(strings.TrimSpace(keytype))", Rule: "C01.mapinfer", Construct: "ColMap.Infer/Values"},
		Mutant{Name: "tuple-state-stops-at-first-stateless", File: "proto/col_tuple.go", Old: "func (c ColTuple) EncodeState(b *Buffer) {\n\tfor _, v := range c {\n\t\tif s, ok := v.(StateEncoder); ok {\n\t\t\ts.EncodeState(b)\n\t\t}\n\t}\n}", New: "func (c ColTuple) EncodeState(b *Buffer) {\n\tfor _, v := range c {\n\t\ts, ok := v.(StateEncoder)\n\t\tif !ok {\n\t\t\tbreak\n\t\t}\n\t\ts.EncodeState(b)\n\t}\n}", Rule: "C01.forward-all", Construct: "ColTuple.EncodeState"},
	)
	add("C02",
		Mutant{Name: "tuple-state-stops-at-first-stateless", File: "proto/col_tuple.go", Old: "func (c ColTuple) EncodeState(b *Buffer) {\n\tfor _, v := range c {\n\t\tif s, ok := v.(StateEncoder); ok {\n\t\t\ts.EncodeState(b)\n\t\t}\n\t}\n}", New: "func (c ColTuple) EncodeState(b *Buffer) {\n\tfor _, v := range c {\n\t\ts, ok := v.(StateEncoder)\n\t\tif !ok {\n\t\t\tbreak\n\t\t}\n\t\ts.EncodeState(b)\n\t}\n}", Rule: "C02.forward-all", Construct: "ColTuple.EncodeState"},
		Mutant{Name: "flush-keeps-queue-on-dead-context", File: "client.go", Old: "\t\t// Do not keep data of failed request queued.\n\t\tc.writer.Reset()\n", New: "", Rule: "C02.discard-flush", Construct: "flush"},
	)
	add("C03",
		Mutant{Name: "totals-decoded-as-uncompressed", File: "query.go", Old: "\t\t\tcase proto.ServerCodeData, proto.ServerCodeTotals:\n\t\t\t\tif err := c.decodeBlock(ctx, decodeOptions{\n\t\t\t\t\tHandler:      onResult,\n\t\t\t\t\tResult:       q.Result,\n\t\t\t\t\tCompressible: code.Compressible(),\n\t\t\t\t}); err != nil {", New: "\t\t\tcase proto.ServerCodeData, proto.ServerCodeTotals:\n\t\t\t\tif err := c.decodeBlock(ctx, decodeOptions{\n\t\t\t\t\tHandler:      onResult,\n\t\t\t\t\tResult:       q.Result,\n\t\t\t\t\tCompressible: code == proto.ServerCodeData,\n\t\t\t\t}); err != nil {", Rule: "C03.compressible", Construct: "decodeBlock"},
	)
	add("C04",
		Mutant{Name: "write-deadline-from-afterfunc", File: "client.go", Old: "\tn, err := c.writer.Flush()\n\tif err != nil {\n\t\treturn err\n\t}", New: "\tstop := context.AfterFunc(ctx, func() {\n\t\t_ = c.conn.SetWriteDeadline(time.Now())\n\t})\n\tdefer stop()\n\tn, err := c.writer.Flush()\n\tif err != nil {\n\t\treturn err\n\t}", Rule: "C04.async", Construct: "flush"},
		Mutant{Name: "handshake-arms-read-deadline", File: "handshake.go", Old: "\t\tif err := c.decode(&c.server); err != nil {", New: "\t\tif d, ok := ctx.Deadline(); ok {\n\t\t\tif err := c.conn.SetReadDeadline(d); err != nil {\n\t\t\t\treturn errors.Wrap(err, \"set read deadline\")\n\t\t\t}\n\t\t}\n\t\tif err := c.decode(&c.server); err != nil {", Rule: "C04.disarm", Construct: "handshake"},
	)
	add("C04",
		Mutant{Name: "flag-for-any-wrapped-exception", File: "query.go", Old: "if code == proto.ServerCodeException && IsException(err) {", New: "if IsException(err) {", Rule: "C04.exception-flag", Construct: "/own"},
	)
	add("C05",
		Mutant{Name: "method-checked-before-checksum", File: "compress/reader.go", Old: "\tr.data = append(r.data[:0], make([]byte, dataSize)...)\n", New: "\tif m := methodEncoding(r.header[hMethod]); m != encodedLZ4 && m != encodedZSTD && m != encodedNone {\n\t\treturn errors.Errorf(\"compression 0x%02x not implemented\", m)\n\t}\n\tr.data = append(r.data[:0], make([]byte, dataSize)...)\n", Rule: "C05.verify", Construct: "method-before-verify"},
		Mutant{Name: "writeto-hands-out-whole-frame", File: "compress/reader.go", Old: "// NewReader returns new *Reader from r.\n", New: "// WriteTo implements io.WriterTo.\nfunc (r *Reader) WriteTo(w io.Writer) (n int64, err error) {\n\tfor {\n\t\tif r.pos < int64(len(r.data)) {\n\t\t\tm, err := w.Write(r.data)\n\t\t\tn += int64(m)\n\t\t\tif err != nil {\n\t\t\t\treturn n, err\n\t\t\t}\n\t\t\tr.pos = int64(len(r.data))\n\t\t}\n\t\tif err := r.readBlock(); err != nil {\n\t\t\tr.data = r.data[:0]\n\t\t\tr.pos = 0\n\t\t\treturn n, errors.Wrap(err, \"read next block\")\n\t\t}\n\t}\n}\n\n// NewReader returns new *Reader from r.\n", Rule: "C05.cursor", Construct: "WriteTo"},
	)
	add("C06",
		Mutant{Name: "fixedstring-size-from-type-string", File: "proto/col_auto.go", Old: "\t\tcase ColumnTypeDecimal:\n\t\t\tvar prec int", New: "\t\tcase ColumnTypeFixedString:\n\t\t\tsize, err := strconv.Atoi(strings.TrimSpace(string(t.Elem())))\n\t\t\tif err != nil {\n\t\t\t\treturn errors.Wrap(err, \"fixed string\")\n\t\t\t}\n\t\t\tc.Data = &ColFixedStr{Size: size}\n\t\t\tc.DataType = t\n\t\t\treturn nil\n\t\tcase ColumnTypeDecimal:\n\t\t\tvar prec int", Rule: "C06.config", Construct: "ColAuto"},
		Mutant{Name: "fixedstring-size-only-upper-bound", File: "proto/col_auto.go", Old: "\t\tcase ColumnTypeDecimal:\n\t\t\tvar prec int", New: "\t\tcase ColumnTypeFixedString:\n\t\t\tsize, err := strconv.Atoi(strings.TrimSpace(string(t.Elem())))\n\t\t\tif err != nil {\n\t\t\t\treturn errors.Wrap(err, \"fixed string\")\n\t\t\t}\n\t\t\tif size > 1<<20 {\n\t\t\t\treturn errors.New(\"fixed string too wide\")\n\t\t\t}\n\t\t\tv := new(ColFixedStr)\n\t\t\tv.SetSize(size)\n\t\t\tc.Data = v\n\t\t\tc.DataType = t\n\t\t\treturn nil\n\t\tcase ColumnTypeDecimal:\n\t\t\tvar prec int", Rule: "C06.config", Construct: "ColAuto"},
		Mutant{Name: "datetime64-infer-forgets-flag", File: "proto/col_datetime64.go", Old: "\tc.Precision = p\n\tc.PrecisionSet = true\n\tif hasloc {", New: "\tc.Precision = p\n\tif hasloc {", Rule: "C06.configured", Construct: "ColDateTime64.PrecisionSet"},
	)
	add("C08",
		Mutant{Name: "header-peeked-through-interface", File: "compress/reader.go", Old: "\tif _, err := io.ReadFull(r.reader, r.header); err != nil {\n\t\treturn errors.Wrap(err, \"header\")\n\t}", New: "\tif p, ok := r.reader.(interface {\n\t\tPeek(int) ([]byte, error)\n\t}); ok {\n\t\tif _, err := p.Peek(headerSize); err != nil {\n\t\t\treturn errors.Wrap(err, \"header\")\n\t\t}\n\t}\n\tif _, err := io.ReadFull(r.reader, r.header); err != nil {\n\t\treturn errors.Wrap(err, \"header\")\n\t}", Rule: "C08.readfull", Construct: "Peek"},
		Mutant{Name: "packet-deadline-left-armed", File: "client.go", Old: "\t\tdefer func() {\n\t\t\t// Reset deadline.\n\t\t\t_ = c.conn.SetReadDeadline(time.Time{})\n\t\t}()\n", New: "", Rule: "C08.disarm", Construct: "packet"},
		Mutant{Name: "handshake-arms-read-deadline", File: "handshake.go", Old: "\t\tif err := c.decode(&c.server); err != nil {", New: "\t\tif d, ok := ctx.Deadline(); ok {\n\t\t\tif err := c.conn.SetReadDeadline(d); err != nil {\n\t\t\t\treturn errors.Wrap(err, \"set read deadline\")\n\t\t\t}\n\t\t}\n\t\tif err := c.decode(&c.server); err != nil {", Rule: "C08.disarm", Construct: "handshake"},
	)
	add("C09",
		Mutant{Name: "callback-cleared-only-when-logging", File: "query.go", Old: "\t\t\t\t\t\t)\n\t\t\t\t\t}\n\t\t\t\t\tf = nil\n\t\t\t\t\tcontinue", New: "\t\t\t\t\t\t)\n\t\t\t\t\t\tf = nil\n\t\t\t\t\t}\n\t\t\t\t\tcontinue", Rule: "C09.eof-once", Construct: "sendInput"},
		Mutant{Name: "initial-eof-keeps-callback", File: "query.go", Old: "\t\t\t// Initial input is also the last one, writing it as single block.\n\t\t\tf = nil\n", New: "\t\t\t// Initial input is also the last one, writing it as single block.\n", Rule: "C09.eof-once", Construct: "sendInput"},
	)
	add("C10",
		Mutant{Name: "packet-deadline-left-armed", File: "client.go", Old: "\t\tdefer func() {\n\t\t\t// Reset deadline.\n\t\t\t_ = c.conn.SetReadDeadline(time.Time{})\n\t\t}()\n", New: "", Rule: "C10.disarm", Construct: "packet"},
	)
	add("C11",
		Mutant{Name: "health-timer-not-rearmed", File: "chpool/pool.go", Old: "\tticker := time.NewTicker(p.options.HealthCheckPeriod)", New: "\tticker := time.NewTimer(p.options.HealthCheckPeriod)", Rule: "C11.periodic", Construct: "backgroundHealthCheck"},
	)
	add("C13",
		Mutant{Name: "handshake-timeout-default-is-read-timeout", File: "client.go", Old: "\t\to.HandshakeTimeout = DefaultHandshakeTimeout", New: "\t\to.HandshakeTimeout = DefaultReadTimeout", Rule: "C13.defaults", Construct: "Options.HandshakeTimeout"},
	)
	add("C13",
		Mutant{Name: "wide-packet-code-truncated", File: "client.go", Old: "if uint64(code) != n || !code.IsAServerCode() {", New: "if !code.IsAServerCode() {", Rule: "C13.codewidth", Construct: "packet"},
	)
	add("C15",
		Mutant{Name: "ensure-rounds-length-up", File: "proto/buffer.go", Old: "\tb.Buf = append(b.Buf[:0], make([]byte, n)...)", New: "\tb.Buf = append(b.Buf[:0], make([]byte, (n+7)&^7)...)", Rule: "C15.ensure", Construct: "Ensure"},
	)
	add("C07",
		Mutant{Name: "ensure-rounds-length-up", File: "proto/buffer.go", Old: "\tb.Buf = append(b.Buf[:0], make([]byte, n)...)", New: "\tb.Buf = append(b.Buf[:0], make([]byte, (n+7)&^7)...)", Rule: "C07.ensure", Construct: "Ensure"},
	)
	add("C16",
		Mutant{Name: "flush-keeps-queue-on-write-error", File: "proto/writer.go", Old: "\tn, err = w.vec.WriteTo(w.conn)\n\tw.reset()\n\treturn n, err", New: "\tn, err = w.vec.WriteTo(w.conn)\n\tif err != nil {\n\t\treturn n, err\n\t}\n\tw.reset()\n\treturn n, nil", Rule: "C16.writer.flush", Construct: "Flush"},
		Mutant{Name: "json-reset-on-copy", File: "proto/col_json_str.go", Old: "func (c *ColJSONStr) Reset() {", New: "func (c ColJSONStr) Reset() {", Rule: "C16.reset-recv", Construct: "ColJSONStr.Reset"},
	)
	add("C17",
		Mutant{Name: "block-rows-under-column-limit", File: "proto/block.go", Old: "\t\tif err := checkRows(v); err != nil {\n\t\t\treturn errors.Wrap(err, \"rows count\")\n\t\t}", New: "\t\tif v > maxColumnsInBlock || v < 0 {\n\t\t\treturn errors.Errorf(\"invalid rows number %d\", v)\n\t\t}", Rule: "C17.limits", Construct: "Block.Rows"},
		Mutant{Name: "ensure-rounds-length-up", File: "proto/buffer.go", Old: "\tb.Buf = append(b.Buf[:0], make([]byte, n)...)", New: "\tb.Buf = append(b.Buf[:0], make([]byte, (n+7)&^7)...)", Rule: "C17.ensure", Construct: "Ensure"},
	)
	add("C18",
		Mutant{Name: "auto-keeps-column-on-same-base", File: "proto/col_auto.go", Old: "\tif c.Data != nil && !c.Type().Conflicts(t) {", New: "\tif c.Data != nil && c.DataType.Base() == t.Base() {", Rule: "C18.auto-adopt", Construct: "ColAuto.Infer/keep"},
		Mutant{Name: "fixedstring-width-ignored", File: "proto/column.go", Old: "\tcase ColumnTypeDateTime, ColumnTypeDateTime64:\n\t\t// TODO(ernado): improve check", New: "\tcase ColumnTypeDateTime, ColumnTypeDateTime64, ColumnTypeFixedString:\n\t\t// TODO(ernado): improve check", Rule: "C18.lenient", Construct: "FixedString"},
		Mutant{Name: "array-forwards-own-type", File: "proto/col_arr.go", Old: "\t\tif err := v.Infer(t.Elem()); err != nil {", New: "\t\tif err := v.Infer(t); err != nil {", Rule: "C18.wrapper-elem", Construct: "ColArr"},
	)
	add("C19",
		Mutant{Name: "array-forwards-own-type", File: "proto/col_arr.go", Old: "\t\tif err := v.Infer(t.Elem()); err != nil {", New: "\t\tif err := v.Infer(t); err != nil {", Rule: "C19.wrapper-elem", Construct: "ColArr"},
		Mutant{Name: "auto-keeps-column-on-same-base", File: "proto/col_auto.go", Old: "\tif c.Data != nil && !c.Type().Conflicts(t) {", New: "\tif c.Data != nil && c.DataType.Base() == t.Base() {", Rule: "C19.auto-adopt", Construct: "ColAuto.Infer/keep"},
		Mutant{Name: "fixedstring-size-from-type-string", File: "proto/col_auto.go", Old: "\t\tcase ColumnTypeDecimal:\n\t\t\tvar prec int", New: "\t\tcase ColumnTypeFixedString:\n\t\t\tsize, err := strconv.Atoi(strings.TrimSpace(string(t.Elem())))\n\t\t\tif err != nil {\n\t\t\t\treturn errors.Wrap(err, \"fixed string\")\n\t\t\t}\n\t\t\tc.Data = &ColFixedStr{Size: size}\n\t\t\tc.DataType = t\n\t\t\treturn nil\n\t\tcase ColumnTypeDecimal:\n\t\t\tvar prec int", Rule: "C19.config", Construct: "ColAuto"},
	)
	add("C20",
		Mutant{Name: "date-time-in-local-zone", File: "proto/date.go", Old: "\treturn time.Unix(d.Unix(), 0).UTC()", New: "\treturn time.Unix(d.Unix(), 0)", Rule: "C20.dayzone", Construct: "Date.Time"},
		Mutant{Name: "date32-time-in-local-zone", File: "proto/date32.go", Old: "\treturn time.Unix(d.Unix(), 0).UTC()", New: "\treturn time.Unix(d.Unix(), 0)", Rule: "C20.dayzone", Construct: "Date32.Time"},
	)
}
