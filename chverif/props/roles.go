package props

import (
	"go/token"
	"go/types"

	"golang.org/x/tools/go/ssa"

	"chverif/core"
)

// Roles inside (*ch.Client).Do, resolved from what the closures do, not from
// their position: the sender is the errgroup goroutine from which
// (*proto.Writer).Flush is reachable, the receiver the one that reads packets,
// the cancel-watch the one from which (*Client).Close is reachable.
type doRoles struct {
	Do       *ssa.Function
	Sender   *ssa.Function
	Receiver *ssa.Function
	Watch    *ssa.Function
	GoCalls  []ssa.CallInstruction
	Wait     ssa.CallInstruction
	Group    *ssa.Call // errgroup.WithContext call
}

func isErrgroupGo(f *types.Func) bool {
	return core.IsMethod(f, "golang.org/x/sync/errgroup", "Group", "Go")
}
func isErrgroupWait(f *types.Func) bool {
	return core.IsMethod(f, "golang.org/x/sync/errgroup", "Group", "Wait")
}
func isErrgroupWithContext(f *types.Func) bool {
	return core.IsFunc(f, "golang.org/x/sync/errgroup", "WithContext")
}
func isClientMethod(name string) func(*types.Func) bool {
	return func(f *types.Func) bool { return core.IsMethod(f, core.PkgCh, "Client", name) }
}
func isWriterFlush(f *types.Func) bool { return core.IsMethod(f, core.PkgProto, "Writer", "Flush") }

func resolveDo(c *Ctx, p *core.Program) *doRoles {
	do := p.Method(core.PkgCh, "Client", "Do")
	if !c.must(p, "(*ch.Client).Do", do != nil) {
		return nil
	}
	r := &doRoles{Do: do}
	for _, call := range core.Calls(do) {
		f := core.CalleeFunc(call)
		switch {
		case f == nil:
		case isErrgroupGo(f):
			r.GoCalls = append(r.GoCalls, call)
			cl := core.ClosureArg(call, 1)
			if cl == nil {
				c.R.Fatalf("[%s] errgroup.Go in Do is not given a closure literal", p.Cfg.Name)
				return nil
			}
			switch {
			case core.ReachesCallee(cl, isClientMethod("packet"), 3):
				r.Receiver = cl
			case core.ReachesCallee(cl, func(f *types.Func) bool { return f.Name() == "SetReadDeadline" }, 3) && !core.ReachesCallee(cl, isWriterFlush, 2):
				// the receive loop by what it does: it arms the read deadline (and does not flush)
				r.Receiver = cl
			case core.ReachesCallee(cl, isClientMethod("Close"), 4):
				r.Watch = cl
			case core.ReachesCallee(cl, isWriterFlush, 4):
				r.Sender = cl
			}
		case isErrgroupWait(f):
			r.Wait = call
		case isErrgroupWithContext(f):
			r.Group, _ = call.(*ssa.Call)
		}
	}
	ok := r.Sender != nil && r.Receiver != nil && r.Watch != nil && r.Wait != nil && r.Group != nil
	if !c.must(p, "sender / receiver / cancel-watch goroutines of Do (errgroup closures) and g.Wait()", ok) {
		return nil
	}
	return r
}

// freeVarBinding returns the value bound to free variable name of closure cl
// at its creation in parent.
func freeVarBinding(parent, cl *ssa.Function, name string) ssa.Value {
	idx := -1
	for i, fv := range cl.FreeVars {
		if fv.Name() == name {
			idx = i
		}
	}
	if idx < 0 {
		return nil
	}
	for _, b := range parent.Blocks {
		for _, in := range b.Instrs {
			if mc, ok := in.(*ssa.MakeClosure); ok && mc.Fn == cl {
				return mc.Bindings[idx]
			}
		}
	}
	return nil
}

// freeVarOfBinding returns the free variable of cl bound to value v.
func freeVarOfBinding(parent, cl *ssa.Function, v ssa.Value) *ssa.FreeVar {
	for _, b := range parent.Blocks {
		for _, in := range b.Instrs {
			if mc, ok := in.(*ssa.MakeClosure); ok && mc.Fn == cl {
				for i, bv := range mc.Bindings {
					if bv == v {
						return cl.FreeVars[i]
					}
				}
			}
		}
	}
	return nil
}

// isLoadOf reports whether v is a load (*x) of cell.
func isLoadOf(v ssa.Value, cell ssa.Value) bool {
	u, ok := v.(*ssa.UnOp)
	return ok && u.Op == token.MUL && u.X == cell
}

// clientField returns the field name when v is &c.<field> (or a load of it)
// for c of type *ch.Client.
func clientFieldAddr(in ssa.Instruction) (string, bool) {
	fa, ok := in.(*ssa.FieldAddr)
	if !ok {
		return "", false
	}
	if !core.IsNamed(fa.X.Type(), core.PkgCh, "Client") {
		return "", false
	}
	st := core.NamedOf(fa.X.Type()).Underlying().(*types.Struct)
	return st.Field(fa.Field).Name(), true
}

// ctxErrCall: v is ctx.Err() on some context value.
func isCtxErr(v ssa.Value) bool {
	c, ok := v.(*ssa.Call)
	if !ok || !c.Call.IsInvoke() {
		return false
	}
	return c.Call.Method.Name() == "Err" && core.IsNamed(c.Call.Value.Type(), "context", "Context")
}

// nilCmp: cond is `x != nil` / `x == nil`; returns x and whether cond true means non-nil.
func nilCmp(cond ssa.Value) (x ssa.Value, nonNilWhenTrue bool, ok bool) {
	bo, isBin := cond.(*ssa.BinOp)
	if !isBin {
		return nil, false, false
	}
	switch {
	case core.IsNilConst(bo.Y):
		x = bo.X
	case core.IsNilConst(bo.X):
		x = bo.Y
	default:
		return nil, false, false
	}
	switch bo.Op {
	case token.NEQ:
		return x, true, true
	case token.EQL:
		return x, false, true
	}
	return nil, false, false
}

// bodyOf follows a goroutine closure that merely delegates to one library method
// (`func() error { return c.sendAll(ctx, q, colInfo) }`) to that method.
func bodyOf(fn *ssa.Function) *ssa.Function {
	for i := 0; i < 3; i++ {
		var only *ssa.Function
		n := 0
		for _, call := range core.Calls(fn) {
			if _, isDefer := call.(*ssa.Defer); isDefer {
				n += 2
				continue
			}
			sf := core.StaticFn(call)
			if sf == nil || sf.Blocks == nil || !core.IsLib(pkgOf(sf)) {
				n += 2 // anything else of substance: not a thin wrapper
				continue
			}
			n++
			only = sf
		}
		if n != 1 || only == nil || len(fn.Blocks) > 2 {
			return fn
		}
		fn = only
	}
	return fn
}
