package props

import (
	"go/token"
	"go/types"
	"sort"
	"strings"

	"golang.org/x/tools/go/ssa"

	"chverif/core"
)

func init() { register("C01", runC01) }

func runC01(c *Ctx) {
	c.R.Rule("C01.append", "E4 over every function that receives a *proto.Buffer (parameter or captured): b.Buf is only measured, extended by append stored back, or touched at positions >= its length at entry, so the bytes produced for a column cannot depend on (or damage) what the buffer already contained")
	for _, cfg := range c.Configs() {
		p := c.Prog(cfg)
		if p == nil {
			continue
		}
		n := runBufDisc(c, p, "C01.append")
		c.R.Count("encoder functions["+cfg.Name+"]", n)
		c.R.Floor("C01.append", cfg.Name, n, 90)
		ruleColumnShape(c, p)
		ruleElementWidth(c, p, "C01.width")
		ruleSwapRegion(c, p, "C01.swap")
		ruleEndian(c, p, "C01.endian")
		ruleClones(c, p, "C01.clones")
		ruleReaderSource(c, p, "C01.source")
		ruleReadFull(c, p, "C01.readfull")
		ruleScratchAlias(c, p, "C01.scratch")
		ruleEncoderPure(c, p, "C01.pure")
	}
	p := c.Prog(core.CfgDefault)
	if p == nil {
		return
	}
	ruleBlockShape(c, p)
	ruleVectoredEquiv(c, p, "C01.vectored")
	ruleExitGuards(c, p, "C01.guard")
	ruleScale(c, p, "C01.scale")
	ruleForwardUnconditional(c, p, "C01.forward-always")
	ruleTranslatePerElement(c, p, "C01.translate")
	ruleStrLenUncapped(c, p, "C01.strlen")
	ruleFreshTargets(c, p, "C01.fresh")
	ruleVersionPassThrough(c, p, "C01.version-through")
	ruleLimitSiblings(c, p, "C01.limits")
	ruleKeyWidth(c, p, "C01.keywidth")
	ruleDict(c, p, "C01.dict")
	ruleRebuild(c, p, "C01.rebuild")
	ruleForward(c, p)
	ruleInferTables(c, p, "C01")
	ruleOffsetsAppend(c, p)
	ruleNullFlag(c, p)
	ruleStateSet(c, p)
	ruleForwardAll(c, p, "C01.forward-all")
	ruleForwardEvery(c, p, "C01.forward-every")
	ruleAppendTail(c, p, "C01.tail")
	rulePrepareMethodSet(c, p, "C01.prepare-methodset")
	ruleLimbPairs(c, p, "C01.limbs")
	ruleResetComplete(c, p, "C01.reset-clears")
	ruleResetKeepsParameters(c, p, "C01.reset-keeps")
	ruleArrayCtorElement(c, p, "C01.ctor-elem")
	ruleMapInfer(c, p, "C01.mapinfer")
	ruleStringIdioms(c, p, "C01.idioms")
	ruleResetBefore(c, p, "C01.reset")
	c.R.Assumptions = append(c.R.Assumptions,
		"decided: append-only encoders, agreement of encoder / vectored writer / decoder on sequence and width of what is on the wire in every build configuration and revision, LowCardinality key width and per-width key columns, state/prepare forwarding of wrappers; not decided: equality of decoded and encoded values for all inputs")
}

// ruleColumnShape: L(EncodeColumn) ⊆ L(DecodeColumn), same for state codecs.
func ruleColumnShape(c *Ctx, p *core.Program) { ruleColumnShapeAs(c, p, "C01.shape") }

func ruleColumnShapeAs(c *Ctx, p *core.Program, rule string) {
	if rule == "C01.shape" {
		c.R.Rule(rule, "E2 containment per column type (generic origins included): every atom sequence EncodeColumn can emit (wire primitives, raw appends, nested codecs keyed by the access path of the inner column, e.g. recv.Offsets / recv.Data / recv.keys16) is consumed by a success path of DecodeColumn; likewise EncodeState ⊆ DecodeState; the block encoder is contained in DecodeRawBlock composed with Results.DecodeResult and with Results.decodeAuto at every revision sample")
	}
	cfg := p.Cfg.Name
	cls := wireClassifier(p, true)
	n := 0
	for _, ct := range columnTypes(p) {
		for _, pair := range [][2]string{{"EncodeColumn", "DecodeColumn"}, {"EncodeState", "DecodeState"}} {
			enc, dec := methodOf(p, ct, pair[0]), methodOf(p, ct, pair[1])
			if enc == nil && dec == nil {
				continue
			}
			key := "column/" + ct.Obj().Name() + "/" + pair[0]
			if enc == nil || dec == nil || enc.Blocks == nil || dec.Blocks == nil {
				if pair[0] == "EncodeState" {
					c.R.Bad(rule, key, cfg, "", "column has only one of EncodeState / DecodeState")
				}
				continue
			}
			n++
			o := langOpts{p: p, classify: cls, revision: -1}
			ea, da := buildLang(enc, o), buildLang(dec, o)
			if len(ea.undec)+len(da.undec) > 0 {
				c.R.Unk(rule, key, cfg, p.Pos(enc.Pos()), strings.Join(append(ea.undec, da.undec...), "; "))
				continue
			}
			ed, dd := ea.determinize(), da.determinize()
			if pair[0] == "EncodeColumn" {
				ed.final[0], dd.final[0] = true, true // zero rows: early return = zero-length move
			}
			if ok, w := contained(ed, dd); !ok {
				c.R.Bad(rule, key, cfg, p.Pos(enc.Pos()), sprintf("%s can emit [%s], which no success path of %s consumes", pair[0], strings.Join(w, " "), pair[1]))
				continue
			}
			c.R.Ok(rule, key, cfg, p.Pos(enc.Pos()), "contained; e.g. ["+strings.Join(ed.sampleWords(2, 10), "] [")+"]")
			// the converse: a success path of the decoder that consumes a sequence the encoder never emits is
			// a decoder that stops early (or reads something else) - part of an encoded column is then accepted
			// as the whole of it
			if pair[0] == "EncodeColumn" {
				if ok, w := contained(dd, ed); !ok {
					c.R.Bad(rule, key+"/exact", cfg, p.Pos(dec.Pos()), sprintf("a success path of %s consumes only [%s], which %s never emits: the decoder stops early (or reads something else), so a cut inside the rest of the column is accepted as a complete column and the following bytes are misread", pair[1], strings.Join(w, " "), pair[0]))
				} else {
					c.R.Ok(rule, key+"/exact", cfg, p.Pos(dec.Pos()), "every sequence the decoder accepts is one the encoder emits")
				}
			}
		}
	}
	c.R.Count("column codec pairs["+cfg+"]", n)
	c.R.Floor(rule, cfg, n, 40)
}

// ruleBlockShape: EncodeRawBlock ⊆ DecodeRawBlock∘DecodeResult / decodeAuto.
func ruleBlockShape(c *Ctx, p *core.Program) {
	rule := "C01.shape"
	cfg := p.Cfg.Name
	enc := p.Method(core.PkgProto, "Block", "EncodeRawBlock")
	dec := p.Method(core.PkgProto, "Block", "DecodeRawBlock")
	dr := p.Method(core.PkgProto, "Results", "DecodeResult")
	da := p.Method(core.PkgProto, "Results", "decodeAuto")
	if !c.must(p, "Block.EncodeRawBlock / DecodeRawBlock / Results.DecodeResult / decodeAuto", enc != nil && dec != nil && dr != nil && da != nil) {
		return
	}
	base := wireClassifier(p, false)
	for _, target := range []*ssa.Function{dr, da} {
		cls := func(fn *ssa.Function, in ssa.Instruction) atomDecision {
			d := base(fn, in)
			if d.kind == akAtom && d.label == "DYN:DecodeResult" {
				if fn == target {
					return atomDecision{kind: akDead} // decodeAuto falls back to DecodeResult once targets exist
				}
				return atomDecision{kind: akInline, inline: target}
			}
			return d
		}
		th := thresholds(p)
		seen := map[string]bool{}
		key := "block/EncodeRawBlock⊆" + target.Name()
		bad := false
		for _, r := range revisionSamples(p, c.Thorough()) {
			sig := gateSignature(th, r)
			if seen[sig] {
				continue
			}
			seen[sig] = true
			o := langOpts{p: p, classify: cls, revision: r}
			ea, dla := buildLang(enc, langOpts{p: p, classify: base, revision: r}), buildLang(dec, o)
			if len(ea.undec)+len(dla.undec) > 0 {
				bad = true
				c.R.Unk(rule, key, cfg, p.Pos(enc.Pos()), strings.Join(append(ea.undec, dla.undec...), "; "))
				break
			}
			if ok, w := contained(ea.determinize(), dla.determinize()); !ok {
				bad = true
				c.R.Bad(rule, key, cfg, p.Pos(enc.Pos()), sprintf("revision %d: the block encoder can emit [%s], which the decoder does not consume", r, strings.Join(w, " ")))
				break
			}
		}
		if !bad {
			c.R.Ok(rule, key, cfg, p.Pos(enc.Pos()), sprintf("contained under %d gate valuations", len(seen)))
		}
	}
}

// ruleKeyWidth: LowCardinality key width selection and per-width key columns.
func ruleKeyWidth(c *Ctx, p *core.Program, rule string) {
	c.R.Rule(rule, "in ColLowCardinality.Prepare the cascade `n < K -> width b` is extracted and each branch must satisfy K-1 <= 2^b (keys are 0..n-1); in Prepare, EncodeColumn, WriteColumn and DecodeColumn every `case KeyUIntN` touches only the keysN column")
	cfg := p.Cfg.Name
	prep := p.Method(core.PkgProto, "ColLowCardinality", "Prepare")
	if !c.must(p, "ColLowCardinality.Prepare", prep != nil) {
		return
	}
	keyBits := map[int64]int{}
	for _, n := range []string{"KeyUInt8", "KeyUInt16", "KeyUInt32", "KeyUInt64"} {
		v, ok := constOf(p, core.PkgProto, n)
		if !c.must(p, "const "+n, ok) {
			return
		}
		keyBits[v] = map[string]int{"KeyUInt8": 8, "KeyUInt16": 16, "KeyUInt32": 32, "KeyUInt64": 64}[n]
	}
	// selection points: a constant key width stored to c.key, or returned by a helper that Prepare calls
	nBr := 0
	type selPoint struct {
		fn  *ssa.Function
		at  ssa.Instruction
		val ssa.Value
	}
	var sels []selPoint
	for fn := range core.StaticReach(prep, 1) {
		if pkgOf(fn) == nil || pkgOf(fn).Path() != core.PkgProto {
			continue
		}
		for _, b := range fn.Blocks {
			for _, in := range b.Instrs {
				switch x := in.(type) {
				case *ssa.Store:
					if fa, ok := x.Addr.(*ssa.FieldAddr); ok && fieldNameOnly(fa.X.Type(), fa.Field) == "key" {
						if _, isConst := core.ConstInt(x.Val); isConst {
							sels = append(sels, selPoint{fn, in, x.Val})
						}
					}
				case *ssa.Return:
					if len(x.Results) == 1 && core.IsNamed(x.Results[0].Type(), core.PkgProto, "CardinalityKey") {
						if _, isConst := core.ConstInt(x.Results[0]); isConst {
							sels = append(sels, selPoint{fn, in, x.Results[0]})
						}
					}
				}
			}
		}
	}
	filledInBranch := map[int]bool{}
	for _, sp := range sels {
		{
			b := sp.at.Block()
			kv, _ := core.ConstInt(sp.val)
			bits, known := keyBits[kv]
			if !known {
				continue
			}
			nBr++
			s := sp.at
			// a branch that selects a width fills only that width's key column
			if _, isStore := sp.at.(*ssa.Store); isStore {
				want := sprintf("keys%d", bits)
				for _, x := range sp.fn.Blocks {
					if x != b && !b.Dominates(x) {
						continue
					}
					for _, in := range x.Instrs {
						fa, ok := in.(*ssa.FieldAddr)
						if !ok {
							continue
						}
						fname := fieldNameOnly(fa.X.Type(), fa.Field)
						if strings.HasPrefix(fname, "keys") && fname != "keys" {
							if fname != want {
								c.R.Bad(rule, sprintf("Prepare/width%d/column", bits), cfg, p.Pos(fa.Pos()), sprintf("the branch that selects %d-bit keys fills %s: the encoder announces %d-bit keys and writes an empty or stale key column", bits, fname, bits))
							} else {
								filledInBranch[bits] = true
							}
						}
					}
				}
			}
			// the guarding comparison: the If in the single predecessor chain whose true edge leads here
			if len(b.Preds) != 1 {
				c.R.Unk(rule, sprintf("Prepare/width%d", bits), cfg, p.Pos(s.Pos()), "branch has several predecessors")
				continue
			}
			pred := b.Preds[0]
			ifi, ok := pred.Instrs[len(pred.Instrs)-1].(*ssa.If)
			if !ok {
				continue
			}
			if pred.Succs[0] != b {
				// else-branch: the widest key
				if bits == 64 {
					c.R.Ok(rule, "Prepare/width64", cfg, p.Pos(s.Pos()), "fallback branch uses 64-bit keys")
				} else {
					c.R.Bad(rule, sprintf("Prepare/width%d", bits), cfg, p.Pos(s.Pos()), "the fallback branch does not use the widest key")
				}
				continue
			}
			bo, ok := ifi.Cond.(*ssa.BinOp)
			if !ok {
				c.R.Unk(rule, sprintf("Prepare/width%d", bits), cfg, p.Pos(s.Pos()), "guard is not a comparison")
				continue
			}
			k, okc := constUint(bo.Y)
			if !okc {
				c.R.Unk(rule, sprintf("Prepare/width%d", bits), cfg, p.Pos(s.Pos()), "guard does not compare with a constant")
				continue
			}
			// the compared count must not have been narrowed below 32 bits: uint16(n) < K holds again for n = 65536 + small
			if cv, ok := bo.X.(*ssa.Convert); ok {
				if bt, ok := cv.Type().Underlying().(*types.Basic); ok {
					if w := map[types.BasicKind]int{types.Uint8: 8, types.Int8: 8, types.Uint16: 16, types.Int16: 16}[bt.Kind()]; w > 0 {
						c.R.Bad(rule, sprintf("Prepare/width%d", bits), cfg, p.Pos(s.Pos()), sprintf("the guard compares the number of distinct values truncated to %d bits: a dictionary with 2^%d + j entries passes the test again and gets %d-bit keys", w, w, bits))
						continue
					}
				}
			}
			// n < K : keys 0..K-2 ; n <= K : keys 0..K-1
			maxKey := new(bigU).set(k)
			switch bo.Op {
			case token.LSS:
				maxKey.sub(2)
			case token.LEQ:
				maxKey.sub(1)
			default:
				c.R.Unk(rule, sprintf("Prepare/width%d", bits), cfg, p.Pos(s.Pos()), "unexpected comparison operator")
				continue
			}
			if maxKey.fits(bits) {
				c.R.Ok(rule, sprintf("Prepare/width%d", bits), cfg, p.Pos(s.Pos()), sprintf("n %s %d -> %d-bit keys: largest key fits", bo.Op, k, bits))
			} else {
				c.R.Bad(rule, sprintf("Prepare/width%d", bits), cfg, p.Pos(s.Pos()), sprintf("n %s %d selects %d-bit keys, but the largest key does not fit: distinct values share a key", bo.Op, k, bits))
			}
		}
	}
	if nBr < 4 {
		c.R.Unk(rule, "Prepare/branches", cfg, p.Pos(prep.Pos()), sprintf("%d key-width branches found, expected 4", nBr))
	}
	// per-width key columns
	for _, mn := range []string{"Prepare", "EncodeColumn", "WriteColumn", "DecodeColumn"} {
		fn := p.Method(core.PkgProto, "ColLowCardinality", mn)
		if fn == nil {
			c.R.Unk(rule, "ColLowCardinality."+mn, cfg, "", "method missing")
			continue
		}
		isKey := func(v ssa.Value) bool { return core.IsNamed(v.Type(), core.PkgProto, "CardinalityKey") }
		tbl := switchTable(fn, isKey)
		if len(tbl) < 4 {
			// the switch may have been moved into a method of the same type called from here
			for _, g := range core.StaticReachList(fn) {
				if g == nil || g == fn || g.Blocks == nil || core.RecvNamed2(g) == nil || core.RecvNamed2(g).Obj().Name() != "ColLowCardinality" {
					continue
				}
				if t := switchTable(g, isKey); len(t) >= 4 && len(t) > len(tbl) {
					tbl, fn = t, g
				}
			}
		}
		// closures (WriteColumn) do not contain the switch; fine
		if len(tbl) < 4 && mn == "Prepare" && len(filledInBranch) == 4 {
			c.R.Ok(rule, "ColLowCardinality."+mn+"/switch", cfg, p.Pos(fn.Pos()), "each width-selecting branch fills its own key column")
			continue
		}
		if len(tbl) < 4 {
			// any other shape (a default arm for one width, an if-chain, a helper that returns the column):
			// fold per constant - under key == K only the keysN column of K is reachable
			if decided := keyColumnsPerConstant(c, p, rule, mn, fn, keyBits); decided {
				continue
			}
			c.R.Unk(rule, "ColLowCardinality."+mn+"/switch", cfg, p.Pos(fn.Pos()), sprintf("switch on the key has %d cases, expected 4", len(tbl)))
			continue
		}
		okAll := true
		for kv, blk := range tbl {
			want := sprintf("keys%d", keyBits[kv])
			for _, x := range fn.Blocks {
				if x != blk && !blk.Dominates(x) {
					continue
				}
				for _, in := range x.Instrs {
					fa, ok := in.(*ssa.FieldAddr)
					if !ok {
						continue
					}
					fname := fieldNameOnly(fa.X.Type(), fa.Field)
					if strings.HasPrefix(fname, "keys") && fname != "keys" && fname != want {
						okAll = false
						c.R.Bad(rule, sprintf("ColLowCardinality.%s/case%d", mn, keyBits[kv]), cfg, p.Pos(fa.Pos()), sprintf("case for %d-bit keys touches %s", keyBits[kv], fname))
					}
				}
			}
		}
		if okAll {
			c.R.Ok(rule, "ColLowCardinality."+mn+"/switch", cfg, p.Pos(fn.Pos()), "each case uses its own key column")
		}
	}
}

// tiny helpers for 65-bit arithmetic on thresholds
type bigU struct {
	v   uint64
	neg bool
}

func (b *bigU) set(v uint64) *bigU { b.v = v; return b }
func (b *bigU) sub(n uint64) {
	if b.v < n {
		b.neg = true
		b.v = 0
		return
	}
	b.v -= n
}
func (b *bigU) fits(bits int) bool {
	if b.neg || bits >= 64 {
		return true
	}
	return b.v <= (uint64(1)<<uint(bits))-1
}

func constUint(v ssa.Value) (uint64, bool) {
	cst, ok := v.(*ssa.Const)
	if !ok || cst.Value == nil {
		return 0, false
	}
	return cst.Uint64(), true
}

// ruleForward: wrappers forward state and prepare to their inner columns.
func ruleForward(c *Ctx, p *core.Program) {
	ruleForwardM(c, p, "C01.forward", []string{"EncodeState", "DecodeState", "Prepare"})
}

// ruleForwardM is ruleForward for the given methods under the given rule name.
func ruleForwardM(c *Ctx, p *core.Program, rule string, methods []string) {
	c.R.Rule(rule, "every column type that holds another column behind an interface-typed field (Array, Map, Nullable, LowCardinality, Tuple, Named, Auto, the Alias/Wrap wrapper) implements EncodeState and DecodeState and calls the same method on each such field, in the same order - Block/Results find the state prefix only through a type assertion on the outer column; Prepare is forwarded wherever a Preparable column is a valid inhabitant (oracle: not inside LowCardinality)")
	cfg := p.Cfg.Name
	colIface := p.Pkgs[core.PkgProto].Types.Scope().Lookup("Column")
	if !c.must(p, "interface proto.Column", colIface != nil) {
		return
	}
	isColumnLike := func(t types.Type) bool {
		if sl, ok := t.Underlying().(*types.Slice); ok {
			t = sl.Elem()
		}
		it, ok := t.Underlying().(*types.Interface)
		if !ok {
			return false
		}
		ms := types.NewMethodSet(t)
		_ = it
		return ms.Lookup(nil, "EncodeColumn") != nil || ms.Lookup(nil, "DecodeColumn") != nil
	}
	n := 0
	sc := p.Pkgs[core.PkgProto].Types.Scope()
	for _, name := range sc.Names() {
		tn, ok := sc.Lookup(name).(*types.TypeName)
		if !ok || tn.IsAlias() {
			continue
		}
		named, ok := tn.Type().(*types.Named)
		if !ok {
			continue
		}
		var fields []string
		switch u := named.Underlying().(type) {
		case *types.Struct:
			for i := 0; i < u.NumFields(); i++ {
				if isColumnLike(u.Field(i).Type()) {
					fields = append(fields, u.Field(i).Name())
				}
			}
		case *types.Slice:
			if isColumnLike(u) {
				fields = append(fields, "[]")
			}
		}
		if len(fields) == 0 {
			continue
		}
		// must itself be a column (has DecodeColumn in its pointer method set)
		ms := types.NewMethodSet(types.NewPointer(named))
		if ms.Lookup(nil, "DecodeColumn") == nil && ms.Lookup(tn.Pkg(), "DecodeColumn") == nil {
			continue
		}
		n++
		sort.Strings(fields)
		for _, m := range methods {
			key := "wrapper/" + name + "/" + m
			if m == "Prepare" && (name == "ColLowCardinality" || name == "ColLowCardinalityRaw") {
				c.R.Ok(rule, key, cfg, "", "oracle: no Preparable column is valid inside LowCardinality").Trivial = true
				continue
			}
			fn := methodOf(p, named, m)
			if fn == nil {
				what := "the state prefix of an inner LowCardinality/JSON column is neither written nor read through this wrapper (8 bytes of garbage shift the stream)"
				if m == "Prepare" {
					what = "an inner Preparable column (Enum, LowCardinality) is never prepared through this wrapper: it is encoded with stale or empty keys"
				}
				c.R.Bad(rule, key, cfg, p.Pos(tn.Pos()), name+" does not implement "+m+": "+what)
				continue
			}
			// each field receives the call
			missing := []string{}
			for _, f := range fields {
				found := false
				for _, fw := range core.ForwardedInvokes(fn, m) {
					ap := accessPath(fw.Recv, 0)
					if f == "[]" && strings.Contains(ap, "[]") || strings.Contains(ap, "."+f) {
						found = true
					}
				}
				for fnc := range core.StaticReach(fn, 1) {
					for _, call := range core.Calls(fnc) {
						cf := core.CalleeFunc(call)
						if cf == nil || cf.Name() != m {
							continue
						}
						var rv ssa.Value
						if call.Common().IsInvoke() {
							rv = call.Common().Value
						} else if len(call.Common().Args) > 0 {
							rv = call.Common().Args[0]
						}
						ap := accessPath(rv, 0)
						if f == "[]" && strings.Contains(ap, "[]") || strings.Contains(ap, "."+f) {
							found = true
						}
					}
				}
				if !found {
					missing = append(missing, f)
				}
			}
			if len(missing) > 0 {
				c.R.Bad(rule, key, cfg, p.Pos(fn.Pos()), name+"."+m+" does not forward to inner column(s) "+strings.Join(missing, ", "))
			} else {
				c.R.Ok(rule, key, cfg, p.Pos(fn.Pos()), "forwards to "+strings.Join(fields, ", "))
			}
		}
	}
	c.R.Count("wrapper column types", n)
	c.R.Floor(rule, cfg, n, 6)
}

// ruleElementWidth: fixed-width codecs agree on the element width with the in-memory size.
func ruleElementWidth(c *Ctx, p *core.Program, rule string) {
	c.R.Rule(rule, "for every fixed-width column (a named slice type whose codecs move raw bytes) the constant element width used by EncodeColumn, WriteColumn and DecodeColumn (the factor multiplying the row count / slice length, absent = 1) is the same in all three and equals the in-memory size of the element type under the configuration's types.Sizes")
	cfg := p.Cfg.Name
	sizes := p.Pkgs[core.PkgProto].TypesSizes
	n := 0
	for _, ct := range columnTypes(p) {
		sl, ok := ct.Underlying().(*types.Slice)
		if !ok {
			continue
		}
		if _, isIface := sl.Elem().Underlying().(*types.Interface); isIface {
			continue
		}
		if ct.TypeParams().Len() > 0 {
			continue
		}
		want := sizes.Sizeof(sl.Elem())
		key := "width/" + ct.Obj().Name()
		var got []string
		bad := false
		found := 0
		for _, mn := range []string{"EncodeColumn", "WriteColumn", "DecodeColumn"} {
			fn := methodOf(p, ct, mn)
			if fn == nil || fn.Blocks == nil {
				continue
			}
			w, ok := widthFactor(fn)
			if !ok {
				continue
			}
			found++
			got = append(got, sprintf("%s=%d", mn, w))
			if w != want {
				bad = true
			}
		}
		if found == 0 {
			continue
		}
		n++
		if bad {
			c.R.Bad(rule, key, cfg, p.Pos(ct.Obj().Pos()), sprintf("element width disagrees with Sizeof(%s)=%d: %s", sl.Elem(), want, strings.Join(got, " ")))
		} else {
			c.R.Ok(rule, key, cfg, p.Pos(ct.Obj().Pos()), sprintf("Sizeof=%d; %s", want, strings.Join(got, " ")))
		}
	}
	c.R.Count("fixed-width columns["+cfg+"]", n)
	c.R.Floor(rule, cfg, n, 25)
}

// widthFactor finds the constant that multiplies a length / row count in fn
// (size*len(v), rows*size, s.Len *= size); 1 when lengths are used unscaled
// and the function moves raw bytes; ok=false when fn delegates entirely.
func widthFactor(fn *ssa.Function) (int64, bool) {
	var factors []int64
	moves := false
	// the codec itself plus the helpers it hands the column to (a shared byte-view helper)
	var blocks []*ssa.BasicBlock
	blocks = append(blocks, fn.Blocks...)
	if len(fn.Params) > 0 {
		rn := core.NamedOf(fn.Params[0].Type())
		for _, call := range core.Calls(fn) {
			g := core.StaticFn(call)
			if g == nil || g == fn || g.Blocks == nil || pkgOf(g) == nil || pkgOf(g).Path() != core.PkgProto || rn == nil {
				continue
			}
			takes := false
			for _, pr := range g.Params {
				if n := core.NamedOf(pr.Type()); n != nil && n.Obj() == rn.Obj() {
					takes = true
				} else if n == nil && types.Identical(pr.Type(), rn.Underlying()) {
					takes = true // the byte-view helper takes the column as its plain slice type
				}
			}
			if takes && g.Name() != fn.Name() && g.Name() != "EncodeColumn" && g.Name() != "DecodeColumn" && g.Name() != "WriteColumn" {
				blocks = append(blocks, g.Blocks...)
			}
		}
	}
	for _, b := range blocks {
		for _, in := range b.Instrs {
			switch x := in.(type) {
			case *ssa.BinOp:
				if x.Op != token.MUL {
					continue
				}
				if k, ok := core.ConstInt(x.Y); ok && k > 0 && k <= 4096 {
					factors = append(factors, k)
				} else if k, ok := core.ConstInt(x.X); ok && k > 0 && k <= 4096 {
					factors = append(factors, k)
				}
			case *ssa.Call:
				if f := core.CalleeFunc(x); f != nil {
					switch {
					case core.IsMethod(f, core.PkgProto, "Reader", "ReadRaw"), core.IsMethod(f, core.PkgProto, "Reader", "ReadFull"), core.IsMethod(f, core.PkgProto, "Writer", "ChainWrite"):
						moves = true
					}
				}
				if bi, ok := x.Call.Value.(*ssa.Builtin); ok && (bi.Name() == "append" || bi.Name() == "copy") {
					moves = true
				}
			}
		}
	}
	if len(factors) == 0 {
		if moves {
			return 1, true
		}
		return 0, false
	}
	// all factors must agree
	for _, f := range factors {
		if f != factors[0] {
			return -1, true
		}
	}
	return factors[0], true
}

// ruleOffsetsAppend: offset-carrying columns append the cumulative offset after the elements.
func ruleOffsetsAppend(c *Ctx, p *core.Program) {
	rule := "C01.offsets"
	c.R.Rule(rule, "in every Append* method of a column with an Offsets field (Array, Map) each value appended to Offsets is the inner column's Rows() (cumulative end offset) read after the row's elements were appended: the element appends dominate the Rows() call whose result is stored")
	cfg := p.Cfg.Name
	n := 0
	for _, ct := range columnTypes(p) {
		st, ok := ct.Underlying().(*types.Struct)
		if !ok {
			continue
		}
		has := false
		for i := 0; i < st.NumFields(); i++ {
			if st.Field(i).Name() == "Offsets" {
				has = true
			}
		}
		if !has {
			continue
		}
		for i := 0; i < ct.NumMethods(); i++ {
			m := ct.Method(i)
			// Append* and whatever helper of the type does the appending for them (found by what it does:
			// it appends to Offsets); decoders and Reset rebuild Offsets differently
			if m.Name() == "DecodeColumn" || m.Name() == "Reset" || m.Exported() && !strings.HasPrefix(m.Name(), "Append") {
				continue
			}
			fn := p.Prog.FuncValue(m)
			if fn == nil || fn.Blocks == nil {
				continue
			}
			type offAppend struct {
				at   ssa.Instruction
				vals []ssa.Value
			}
			var apps []offAppend
			for _, b := range fn.Blocks {
				for _, in := range b.Instrs {
					switch x := in.(type) {
					case *ssa.Store:
						fa, ok := x.Addr.(*ssa.FieldAddr)
						if !ok || fieldNameOnly(fa.X.Type(), fa.Field) != "Offsets" {
							continue
						}
						ap, ok := x.Val.(*ssa.Call)
						if !ok {
							if ct2, ok := x.Val.(*ssa.ChangeType); ok {
								ap, _ = ct2.X.(*ssa.Call)
							}
						}
						if ap != nil && len(ap.Call.Args) == 2 {
							apps = append(apps, offAppend{in, variadicElems(ap.Call.Args[1])})
						}
					case *ssa.Call:
						f := core.CalleeFunc(x)
						if f == nil || f.Name() != "Append" || x.Call.IsInvoke() || len(x.Call.Args) != 2 {
							continue
						}
						if fa, ok := x.Call.Args[0].(*ssa.FieldAddr); ok && fieldNameOnly(fa.X.Type(), fa.Field) == "Offsets" {
							apps = append(apps, offAppend{in, []ssa.Value{x.Call.Args[1]}})
						}
					}
				}
			}
			for _, oa := range apps {
				n++
				key := "offsets/" + ct.Obj().Name() + "." + m.Name()
				var rowsCall *ssa.Call
				for _, e := range oa.vals {
					core.DependsOn(e, func(v ssa.Value) bool {
						if cl, ok := v.(*ssa.Call); ok && cl.Call.IsInvoke() && cl.Call.Method.Name() == "Rows" {
							rowsCall = cl
							return true
						}
						return false
					}, false)
				}
				if rowsCall == nil {
					c.R.Bad(rule, key, cfg, p.Pos(oa.at.Pos()), "the offset appended is not the inner column's Rows()")
					continue
				}
				bad := false
				nElem := 0
				for _, call := range core.Calls(fn) {
					f := core.CalleeFunc(call)
					if f == nil || !strings.HasPrefix(f.Name(), "Append") || !call.Common().IsInvoke() {
						continue
					}
					nElem++
					ci := call.(ssa.Instruction)
					// an element append between reading Rows() and appending the offset
					w := core.ReachAvoiding(core.PointOf(rowsCall), func(x ssa.Instruction) bool { return x == ci }, func(x ssa.Instruction) bool { return x == oa.at }, nil)
					if len(w) > 0 {
						bad = true
					}
					// Rows() read without the element appends of this row before it
					if !core.Dominates(ci, rowsCall) && !core.InLoop(ci) {
						bad = true
					}
				}
				if bad || nElem == 0 {
					c.R.Bad(rule, key, cfg, p.Pos(oa.at.Pos()), "the offset is read before the row's elements are appended (or no elements are appended): every row's end offset is the previous row's")
				} else {
					c.R.Ok(rule, key, cfg, p.Pos(oa.at.Pos()), "elements appended, then Offsets += inner.Rows()")
				}
			}
		}
	}
	if n < 3 {
		c.R.Unk(rule, "population", cfg, "", sprintf("%d offset appends found", n))
	}
}

// ruleNullFlag: the null-mask constant written by ColNullable.Append for a set value is the
// constant ColNullable.Row interprets as set (and IsElemNull as not null).
func ruleNullFlag(c *Ctx, p *core.Program) {
	rule := "C01.nullflag"
	c.R.Rule(rule, "sibling agreement inside ColNullable: the mask byte Append writes for a value that is set equals the byte Row compares with to report Set, and differs from the byte IsElemNull compares with to report NULL")
	cfg := p.Cfg.Name
	app := p.Method(core.PkgProto, "ColNullable", "Append")
	row := p.Method(core.PkgProto, "ColNullable", "Row")
	isn := p.Method(core.PkgProto, "ColNullable", "IsElemNull")
	if app == nil || row == nil {
		c.R.Unk(rule, "ColNullable", cfg, "", "Append / Row missing")
		return
	}
	// Append: the mask byte handed to Nulls.Append when v.Set is true
	setConst, haveSet := int64(0), false
	isSet := func(v ssa.Value) bool { return strings.HasSuffix(core.FieldOrigin(v, 0), ".Set") }
	setEdges := core.CondEdges(app, true, func(cond ssa.Value) (bool, bool) { return true, isSet(cond) })
	var resolve func(x ssa.Value, d int)
	resolve = func(x ssa.Value, d int) {
		if d > 3 {
			return
		}
		switch v := x.(type) {
		case *ssa.Phi:
			for i, e := range v.Edges {
				pred := v.Block().Preds[i]
				if len(setEdges) > 0 && core.OnlyViaEdges(app, pred.Instrs[len(pred.Instrs)-1], setEdges) {
					if k, okc := core.ConstInt(e); okc {
						setConst, haveSet = k, true
					}
				}
			}
		case *ssa.Call:
			// a helper mapping the flag to the mask byte: fold it for set = true
			g := core.StaticFn(v)
			if g == nil {
				return
			}
			params := map[int]int64{}
			for i, a := range v.Call.Args {
				if isSet(a) {
					params[i] = 1
				}
			}
			if len(params) == 1 {
				if k, ok := core.FoldFunc(g, nil, params); ok {
					setConst, haveSet = k, true
				}
			}
		case *ssa.Convert:
			resolve(v.X, d+1)
		}
	}
	for _, call := range core.Calls(app) {
		f := core.CalleeFunc(call)
		if f == nil || f.Name() != "Append" || !core.IsMethod(f, core.PkgProto, "ColUInt8", "Append") {
			continue
		}
		args := call.Common().Args
		resolve(args[len(args)-1], 0)
	}
	cmpConst := func(fn *ssa.Function) (int64, bool) {
		for _, b := range fn.Blocks {
			for _, in := range b.Instrs {
				if bo, ok := in.(*ssa.BinOp); ok && bo.Op == token.EQL {
					if k, okc := core.ConstInt(bo.Y); okc {
						return k, true
					}
				}
			}
		}
		return 0, false
	}
	rk, okR := cmpConst(row)
	switch {
	case !haveSet || !okR:
		c.R.Unk(rule, "ColNullable", cfg, p.Pos(app.Pos()), "mask constants not recognised")
	case rk != setConst:
		c.R.Bad(rule, "ColNullable", cfg, p.Pos(row.Pos()), sprintf("Append writes %d for a set value but Row reports Set when the mask is %d: every value comes back with the opposite nullness", setConst, rk))
	default:
		okN := true
		if isn != nil {
			if nk, ok := cmpConst(isn); ok && nk == setConst {
				okN = false
				c.R.Bad(rule, "ColNullable.IsElemNull", cfg, p.Pos(isn.Pos()), "IsElemNull reports NULL for the mask value that means set")
			}
		}
		if okN {
			c.R.Ok(rule, "ColNullable", cfg, p.Pos(app.Pos()), sprintf("set <-> mask %d in Append, Row and IsElemNull", setConst))
		}
	}
}

// ruleStateSet: receiver agreement of the two halves of a state codec.
func ruleStateSet(c *Ctx, p *core.Program) {
	rule := "C01.stateset"
	c.R.Rule(rule, "method-set agreement (go/types): for every proto type that declares EncodeState or DecodeState, whichever of T and *T has the Column method set (so can sit inside Array / Tuple / Map / Nullable as an element) has both halves of the state codec or neither: containers forward state through `x.(StateEncoder)` / `x.(StateDecoder)` type tests, and a half missing from the method set silently drops the prefix in one direction")
	cfg := p.Cfg.Name
	sc := p.Pkgs[core.PkgProto].Types.Scope()
	n := 0
	for _, nm := range sc.Names() {
		tn, ok := sc.Lookup(nm).(*types.TypeName)
		if !ok || tn.IsAlias() {
			continue
		}
		ct, ok := tn.Type().(*types.Named)
		if !ok {
			continue
		}
		if _, isIface := ct.Underlying().(*types.Interface); isIface {
			continue
		}
		declares := false
		for i := 0; i < ct.NumMethods(); i++ {
			if m := ct.Method(i).Name(); m == "EncodeState" || m == "DecodeState" {
				declares = true
			}
		}
		if !declares {
			continue
		}
		n++
		bad := false
		for _, x := range []types.Type{ct, types.NewPointer(ct)} {
			ms := types.NewMethodSet(x)
			has := func(m string) bool { return ms.Lookup(ct.Obj().Pkg(), m) != nil }
			if has("EncodeColumn") && has("DecodeColumn") && has("EncodeState") != has("DecodeState") {
				bad = true
				c.R.Bad(rule, nm, cfg, p.Pos(tn.Pos()), sprintf("%s is usable as a column and has EncodeState=%v but DecodeState=%v in its method set: a container holding it handles the state prefix in one direction only", types.TypeString(x, types.RelativeTo(ct.Obj().Pkg())), has("EncodeState"), has("DecodeState")))
			}
		}
		if !bad {
			c.R.Ok(rule, nm, cfg, p.Pos(tn.Pos()), "both halves wherever the Column method set is present")
		}
	}
	c.R.Floor(rule, cfg, n, 8)
}

// ruleScratchAlias: the reader's scratch buffer never becomes part of a column or message.
func ruleScratchAlias(c *Ctx, p *core.Program, rule string) {
	c.R.Rule(rule, "ownership of the reader's scratch buffer: the slices returned by the proto.Reader methods that hand out Reader.b.Buf (found by what they return: ReadRaw, StrRaw) are only read - copied element-wise, appended FROM, converted to string - and never stored into a field, element or global (directly or re-sliced): the next varint, string or raw read overwrites the scratch from index 0, so a column that keeps it sees its first rows replaced by later header bytes")
	cfg := p.Cfg.Name
	// scratch-returning methods of Reader
	scratch := map[*ssa.Function]bool{}
	if rt := p.NamedType(core.PkgProto, "Reader"); rt != nil {
		for i := 0; i < rt.NumMethods(); i++ {
			fn := p.Prog.FuncValue(rt.Method(i))
			if fn == nil || fn.Blocks == nil || fn.Signature.Results().Len() == 0 {
				continue
			}
			if _, isSlice := fn.Signature.Results().At(0).Type().Underlying().(*types.Slice); !isSlice {
				continue
			}
			for _, b := range fn.Blocks {
				ret, ok := b.Instrs[len(b.Instrs)-1].(*ssa.Return)
				if !ok {
					continue
				}
				v := ret.Results[0]
				if u, ok := v.(*ssa.UnOp); ok && u.Op == token.MUL {
					if fa, ok := u.X.(*ssa.FieldAddr); ok && fieldNameOnly(fa.X.Type(), fa.Field) == "Buf" && strings.HasSuffix(core.FieldOrigin(fa.X, 0), "Reader.b") {
						scratch[fn] = true
					}
				}
			}
		}
	}
	if len(scratch) == 0 {
		c.R.Unk(rule, "proto.Reader", cfg, "", "no method returning the scratch buffer found (anchor lost)")
		return
	}
	n := 0
	for _, fn := range p.Funcs() {
		if pkgOf(fn) == nil || !strings.HasPrefix(pkgOf(fn).Path(), core.PkgCh) {
			continue
		}
		k := 0
		for _, call := range core.Calls(fn) {
			sf := core.StaticFn(call)
			if sf == nil || !scratch[sf] || scratch[fn] {
				continue
			}
			n++
			k++
			key := sprintf("%s/scratch#%d", core.FuncName(fn), k)
			// taint: the slice result and its re-slices
			tainted := map[ssa.Value]bool{}
			var mark func(v ssa.Value, d int)
			mark = func(v ssa.Value, d int) {
				if tainted[v] || d > 8 || v.Referrers() == nil {
					return
				}
				tainted[v] = true
				for _, r := range *v.Referrers() {
					switch x := r.(type) {
					case *ssa.Extract:
						if x.Index == 0 {
							mark(x, d+1)
						}
					case *ssa.Slice:
						if x.X == v {
							mark(x, d+1)
						}
					case *ssa.ChangeType:
						mark(x, d+1)
					case *ssa.Phi:
						mark(x, d+1)
					}
				}
			}
			if v := call.Value(); v != nil {
				mark(v, 0)
			}
			bad := false
			// any later read through the same Reader overwrites the scratch: no use of it after one
			rd := readerClass(p)
			for v := range tainted {
				if v.Referrers() == nil || bad {
					continue
				}
				for _, r := range *v.Referrers() {
					if _, isEx := r.(*ssa.Extract); isEx {
						continue
					}
					if _, isDbg := r.(*ssa.DebugRef); isDbg {
						continue
					}
					for _, c2 := range core.Calls(fn) {
						if c2 == call || !rd(fn, c2) {
							continue
						}
						i2 := c2.(ssa.Instruction)
						if core.Dominates(call.(ssa.Instruction), i2) && core.Dominates(i2, r) && i2 != r {
							bad = true
							c.R.Bad(rule, key, cfg, p.Pos(r.Pos()), "the slice returned by "+sf.Name()+" is used after another read from the same reader ("+core.InstrString(i2)+"): that read reuses the scratch buffer, so the earlier value now shows the later bytes")
							break
						}
					}
					if bad {
						break
					}
				}
			}
			for v := range tainted {
				if v.Referrers() == nil {
					continue
				}
				for _, r := range *v.Referrers() {
					switch x := r.(type) {
					case *ssa.Store:
						if x.Val != v {
							continue
						}
						if _, local := x.Addr.(*ssa.Alloc); local {
							continue
						}
						bad = true
						c.R.Bad(rule, key, cfg, p.Pos(x.Pos()), "the slice returned by "+sf.Name()+" (the reader's scratch buffer) is stored into "+accessPath(x.Addr, 0)+": it is overwritten by the next read")
					case *ssa.Return:
						if fo := fnObj(fn); fo != nil && core.RecvNamed(fo) != nil && core.RecvNamed(fo).Obj().Name() == "Reader" {
							continue // Reader's own wrappers hand it on under the same contract
						}
						bad = true
						c.R.Bad(rule, key, cfg, p.Pos(x.Pos()), "the reader's scratch buffer is returned to the caller by "+core.FuncName(fn))
					}
				}
			}
			if !bad {
				c.R.Ok(rule, key, cfg, p.Pos(call.Pos()), "scratch only read")
			}
		}
	}
	c.R.Floor(rule, cfg, n, 3)
}

// ruleForwardAll (C01.forward-all): a forwarding loop does not stop at the first element that lacks the optional interface.
func ruleForwardAll(c *Ctx, p *core.Program, rule string) {
	c.R.Rule(rule, "in the multi-element wrappers (Tuple ...) the loops that forward an optional capability to every element (`if s, ok := v.(StateEncoder); ok { ... }` for EncodeState / DecodeState / Prepare / Infer) continue with the next element when the type test fails: from the failing edge of the test the function exit is reachable only through the loop header - a `break` / `return` there skips the state prefix of every later element while the other direction still handles it")
	cfg := p.Cfg.Name
	n := 0
	for _, ct := range columnTypes(p) {
		for _, mn := range []string{"EncodeState", "DecodeState", "Prepare", "Infer", "Reset"} {
			fn := methodOf(p, ct, mn)
			if fn == nil || fn.Blocks == nil {
				continue
			}
			k := 0
			// the capability test may live in a per-element helper (prepareElem(v)): the element without the
			// capability makes the helper return nil, and the loop goes on because the error is nil
			for _, call := range core.Calls(fn) {
				g := core.StaticFn(call)
				if g == nil || g.Blocks == nil || !core.InLoop(call.(ssa.Instruction)) || pkgOf(g) == nil || pkgOf(g).Path() != core.PkgProto {
					continue
				}
				for _, gb := range g.Blocks {
					gi, ok := gb.Instrs[len(gb.Instrs)-1].(*ssa.If)
					if !ok {
						continue
					}
					ex, ok := gi.Cond.(*ssa.Extract)
					if !ok || ex.Index != 1 {
						continue
					}
					if ta, ok := ex.Tuple.(*ssa.TypeAssert); !ok || !ta.CommaOk {
						continue
					}
					n++
					k++
					key := sprintf("%s.%s/test#%d", ct.Obj().Name(), mn, k)
					// on the failing edge the helper returns nil (or nothing)
					fails := core.ReachAvoiding(core.Point{B: gb.Succs[1], I: -1}, func(x ssa.Instruction) bool {
						r, isRet := x.(*ssa.Return)
						if !isRet {
							return false
						}
						for _, rv := range r.Results {
							if isErrorTyped(rv) && !core.IsNilConst(rv) {
								return true
							}
						}
						return false
					}, nil, nil)
					if len(fails) > 0 {
						c.R.Bad(rule, key, cfg, p.Pos(gi.Cond.Pos()), "the per-element helper reports an error for an element without the capability: the loop stops there")
					} else {
						c.R.Ok(rule, key, cfg, p.Pos(gi.Cond.Pos()), "per-element helper: an element without the capability yields nil, the loop goes on")
					}
				}
			}
			for _, b := range fn.Blocks {
				ifi, ok := b.Instrs[len(b.Instrs)-1].(*ssa.If)
				if !ok || !core.InLoop(ifi) {
					continue
				}
				ex, ok := ifi.Cond.(*ssa.Extract)
				if !ok || ex.Index != 1 {
					continue
				}
				ta, ok := ex.Tuple.(*ssa.TypeAssert)
				if !ok || !ta.CommaOk {
					continue
				}
				h := core.LoopHeader(ifi)
				if h == nil {
					continue
				}
				n++
				k++
				key := sprintf("%s.%s/test#%d", ct.Obj().Name(), mn, k)
				hits := core.ReachAvoiding(core.Point{B: b.Succs[1], I: -1}, func(x ssa.Instruction) bool {
					_, isRet := x.(*ssa.Return)
					return isRet && x.Block().Comment != "recover"
				}, func(x ssa.Instruction) bool { return x.Block() == h }, nil)
				if len(hits) > 0 {
					c.R.Bad(rule, key, cfg, p.Pos(ifi.Cond.Pos()), "when an element does not implement "+types.TypeString(ta.AssertedType, func(*types.Package) string { return "" })+" the loop is left instead of continued: the elements after it are not forwarded to")
				} else {
					c.R.Ok(rule, key, cfg, p.Pos(ifi.Cond.Pos()), "failing type test continues with the next element")
				}
			}
		}
	}
	c.R.Floor(rule, cfg, n, 3)
}

// ruleForwardUnconditional (C01 / C16 / C02): a wrapper forwards the state prefix whenever its inner column has one.
func ruleForwardUnconditional(c *Ctx, p *core.Program, rule string) {
	c.R.Rule(rule, "the serialization-state prefix belongs to the column, not to its current contents: in EncodeState / DecodeState of every struct wrapper that holds another column behind an interface field (Array, Map, Nullable, Named, Auto ...), no exit is reachable without passing a forwarded EncodeState / DecodeState call except through the failed edge of the type assertion on the inner column - an extra early return (`inner.Rows() == 0`) drops the LowCardinality version word for a batch of all-empty arrays, which DecodeState and the server still expect")
	cfg := p.Cfg.Name
	n := 0
	for _, ct := range columnTypes(p) {
		if _, ok := ct.Underlying().(*types.Struct); !ok {
			continue
		}
		for _, m := range []string{"EncodeState", "DecodeState"} {
			fn := methodOf(p, ct, m)
			if fn == nil || fn.Blocks == nil {
				continue
			}
			fws := core.ForwardedInvokes(fn, m)
			if len(fws) == 0 {
				continue // leaf: has a state of its own
			}
			n++
			key := "wrapper/" + ct.Obj().Name() + "/" + m
			isFw := func(in ssa.Instruction) bool {
				for _, fw := range fws {
					if fw.At == in {
						return true
					}
				}
				return false
			}
			notAsserted := core.CondEdges(fn, false, func(cond ssa.Value) (bool, bool) {
				ex, ok := cond.(*ssa.Extract)
				if !ok || ex.Index != 1 {
					return false, false
				}
				ta, ok := ex.Tuple.(*ssa.TypeAssert)
				return true, ok && ta.CommaOk
			})
			// with several inner columns (Map: keys and values) each assertion guards its own forward: a path
			// that skipped one forward through its failed assertion must still meet the others, so the search
			// only stops at exits
			w := core.ReachAvoiding(core.Entry(fn), func(x ssa.Instruction) bool {
				ret, ok := x.(*ssa.Return)
				if !ok || x.Block().Comment == "recover" {
					return false
				}
				if _, hasErr := core.ReturnsError(fn.Signature); hasErr {
					return defaultSuccess(fn, ret)
				}
				return true
			}, isFw, core.WithoutEdges(notAsserted))
			if len(w) > 0 {
				c.R.Bad(rule, key, cfg, p.Pos(w[0].At.Pos()), ct.Obj().Name()+"."+m+" can return without forwarding to its inner column although the inner column has a state prefix: the prefix is dropped for some contents (e.g. no elements) while the other side of the stream still expects it", p.TrailString(w[0])...)
			} else {
				c.R.Ok(rule, key, cfg, p.Pos(fn.Pos()), "forwarded on every path on which the inner column is stateful")
			}
		}
	}
	c.R.Count("state-forwarding wrapper methods["+cfg+"]", n)
	c.R.Floor(rule, cfg, n, 8)
}

// ruleTranslatePerElement (C01 / C16): a dictionary translation loop emits this iteration's lookup.
func ruleTranslatePerElement(c *Ctx, p *core.Program, rule string) {
	c.R.Rule(rule, "where a proto function translates the elements of a slice through a map (raw enum number -> name on decode, name -> number in Prepare: a lookup keyed by the current element inside the loop), every value of the map's element type that the iteration appends or hands to an Append method is the result of that very lookup - not a loop-carried copy that is refreshed only when the key changes: a cache whose initial state coincides with a real key (raw value 0 with an empty name) emits the zero value for a leading run of that key and never rejects it")
	cfg := p.Cfg.Name
	n := 0
	for _, fn := range p.Funcs() {
		if pkgOf(fn) == nil || pkgOf(fn).Path() != core.PkgProto || fn.Blocks == nil {
			continue
		}
		isElemLoad := func(x ssa.Value) bool {
			u, ok := x.(*ssa.UnOp)
			if !ok || u.Op != token.MUL {
				return false
			}
			_, ok = u.X.(*ssa.IndexAddr)
			return ok
		}
		for _, b := range fn.Blocks {
			for _, in := range b.Instrs {
				lk, ok := in.(*ssa.Lookup)
				if !ok || !core.InLoop(lk) {
					continue
				}
				mt, ok := lk.X.Type().Underlying().(*types.Map)
				if !ok {
					continue
				}
				if !core.DependsOn(lk.Index, isElemLoad, false) {
					continue
				}
				isResult := func(v ssa.Value) bool {
					v = stripConv(v)
					if v == ssa.Value(lk) {
						return true
					}
					e, ok := v.(*ssa.Extract)
					return ok && e.Tuple == ssa.Value(lk) && e.Index == 0
				}
				// sinks: appended elements / Append arguments of the element type inside loops
				var carried []ssa.Instruction
				sinks := 0
				for _, b2 := range fn.Blocks {
					for _, in2 := range b2.Instrs {
						call, ok := in2.(ssa.CallInstruction)
						if !ok || !core.InLoop(in2) {
							continue
						}
						var vals []ssa.Value
						if bi, ok := call.Common().Value.(*ssa.Builtin); ok && bi.Name() == "append" && len(call.Common().Args) == 2 {
							vals = variadicElems(call.Common().Args[1])
						} else if f := core.CalleeFunc(call); f != nil && strings.HasPrefix(strings.ToLower(f.Name()), "append") {
							vals = call.Common().Args
						}
						for _, v := range vals {
							s := stripConv(v)
							if isResult(s) {
								sinks++
								continue
							}
							if ph, ok := s.(*ssa.Phi); ok {
								for _, e := range ph.Edges {
									if isResult(e) {
										sinks++
										carried = append(carried, in2)
									}
								}
							}
						}
					}
				}
				if sinks == 0 {
					continue
				}
				n++
				key := core.FuncName(fn) + "/" + mt.String()
				if len(carried) > 0 {
					c.R.Bad(rule, key, cfg, p.Pos(carried[0].Pos()), "the value emitted for an element is a loop-carried copy of an earlier lookup, refreshed only on some iterations: elements equal to the cache's initial key are emitted as the zero value without ever being looked up")
				} else {
					c.R.Ok(rule, key, cfg, p.Pos(lk.Pos()), sprintf("%d emitted value(s) are this iteration's lookup", sinks))
				}
			}
		}
	}
	c.R.Count("dictionary translation loops["+cfg+"]", n)
	c.R.Floor(rule, cfg, n, 1)
}

// keyColumnsPerConstant decides the per-width clause of *.keywidth for a method
// (or the same-type helpers it calls) whose dispatch on the key is not a
// four-case switch: for each key constant K the CFG is pruned under key == K
// and every keysN field still reachable must be the one of K.
func keyColumnsPerConstant(c *Ctx, p *core.Program, rule, mn string, fn *ssa.Function, keyBits map[int64]int) bool {
	cfg := p.Cfg.Name
	cands := []*ssa.Function{fn}
	for _, g := range core.StaticReachList(fn) {
		if g == nil || g == fn || g.Blocks == nil {
			continue
		}
		h := g
		if h.Synthetic != "" {
			for _, wc := range core.Calls(h) {
				if o := core.StaticFn(wc); o != nil && o.Blocks != nil && strings.HasPrefix(h.Name(), o.Name()) {
					h = o
				}
			}
		}
		if core.RecvNamed2(h) != nil && core.RecvNamed2(h).Obj().Name() == "ColLowCardinality" {
			cands = append(cands, h)
		}
	}
	isKey := func(v ssa.Value) bool { return core.IsNamed(v.Type(), core.PkgProto, "CardinalityKey") }
	decided := false
	for _, g := range cands {
		hasCmp := false
		for _, b := range g.Blocks {
			for _, in := range b.Instrs {
				if bo, ok := in.(*ssa.BinOp); ok && bo.Op == token.EQL && (isKey(bo.X) || isKey(bo.Y)) {
					hasCmp = true
				}
			}
		}
		if !hasCmp {
			continue
		}
		decided = true
		okAll := true
		for kv, bits := range keyBits {
			want := sprintf("keys%d", bits)
			feas := core.FeasibleUnder(g, func(cond ssa.Value) int {
				bo, ok := cond.(*ssa.BinOp)
				if !ok || (bo.Op != token.EQL && bo.Op != token.NEQ) {
					return -1
				}
				var k int64
				var okc bool
				switch {
				case isKey(bo.X):
					k, okc = core.ConstInt(bo.Y)
				case isKey(bo.Y):
					k, okc = core.ConstInt(bo.X)
				}
				if !okc {
					return -1
				}
				if (k == kv) == (bo.Op == token.EQL) {
					return 1
				}
				return 0
			})
			seen := map[*ssa.BasicBlock]bool{g.Blocks[0]: true}
			work := []*ssa.BasicBlock{g.Blocks[0]}
			for len(work) > 0 {
				b := work[len(work)-1]
				work = work[:len(work)-1]
				for i, s := range b.Succs {
					if feas(b, i) && !seen[s] {
						seen[s] = true
						work = append(work, s)
					}
				}
			}
			for b := range seen {
				for _, in := range b.Instrs {
					fa, ok := in.(*ssa.FieldAddr)
					if !ok {
						continue
					}
					fname := fieldNameOnly(fa.X.Type(), fa.Field)
					if strings.HasPrefix(fname, "keys") && fname != "keys" && fname != want {
						okAll = false
						c.R.Bad(rule, sprintf("ColLowCardinality.%s/case%d", mn, bits), cfg, p.Pos(fa.Pos()), sprintf("with %d-bit keys selected, %s reaches %s", bits, core.FuncName(g), fname))
					}
				}
			}
		}
		if okAll {
			c.R.Ok(rule, "ColLowCardinality."+mn+"/switch", cfg, p.Pos(g.Pos()), "folded per key width: only that width's key column is reachable (in "+core.FuncName(g)+")")
		}
	}
	return decided
}
