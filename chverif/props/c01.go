package props


func init() { register("C01", runC01) }

func runC01(c *Ctx) {
	c.R.Rule("C01.append", "E4 over every function that receives a *proto.Buffer (parameter or captured): b.Buf is only measured, extended by append stored back, or touched at positions >= its length at entry, so the bytes produced for a column cannot depend on (or damage) what the buffer already contained")
	for _, cfg := range c.Configs() {
		p := c.Prog(cfg)
		if p == nil {
			continue
		}
		n := runBufDisc(c, p, "C01.append")
		c.R.Count("encoder functions["+cfg.Name+"]", n)
		c.R.Floor("C01.append", cfg.Name, n, 90)
	}
}
