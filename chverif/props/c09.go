package props

import (
	"go/token"
	"go/types"

	"golang.org/x/tools/go/ssa"

	"chverif/core"
)

func init() { register("C09", runC09) }

// atoms of the input streamer
type inputAtoms struct {
	fn *ssa.Function
	E  []ssa.Instruction     // encodeBlock with the caller's input columns
	B  []ssa.Instruction     // blank terminator block
	F  []ssa.Instruction     // flush
	C  []ssa.CallInstruction // OnInput callback
}

func isIn(list []ssa.Instruction) func(ssa.Instruction) bool {
	return func(in ssa.Instruction) bool {
		for _, x := range list {
			if x == in {
				return true
			}
		}
		return false
	}
}

func collectInputAtoms(fn *ssa.Function) *inputAtoms {
	a := &inputAtoms{fn: fn}
	for _, call := range core.Calls(fn) {
		in := call.(ssa.Instruction)
		f := core.CalleeFunc(call)
		switch {
		case f == nil:
			if core.FieldOrigin(call.Common().Value, 0) == "Query.OnInput" {
				a.C = append(a.C, call)
			}
		case core.IsMethod(f, core.PkgCh, "Client", "encodeBlankBlock"):
			a.B = append(a.B, in)
		case core.IsMethod(f, core.PkgCh, "Client", "encodeBlock"):
			args := call.Common().Args
			last := args[len(args)-1]
			if core.IsNilConst(last) {
				a.B = append(a.B, in)
			} else {
				a.E = append(a.E, in)
			}
		case core.IsMethod(f, core.PkgCh, "Client", "flush"):
			a.F = append(a.F, in)
		}
	}
	return a
}

// eofEdges: true edges of errors.Is(<alias of e>, io.EOF)
func eofTrueEdges(fn *ssa.Function, al map[ssa.Value]bool) []core.Edge {
	return core.CondEdges(fn, true, func(cond ssa.Value) (bool, bool) {
		cl, ok := core.CallTo(cond, func(f *types.Func) bool {
			return f.Name() == "Is" && f.Pkg() != nil && (f.Pkg().Path() == "errors" || f.Pkg().Path() == "github.com/go-faster/errors")
		})
		if !ok || len(cl.Call.Args) != 2 || (al != nil && !al[cl.Call.Args[0]]) {
			return false, false
		}
		// second argument: load of io.EOF
		u, ok := cl.Call.Args[1].(*ssa.UnOp)
		if !ok || u.Op != token.MUL {
			return false, false
		}
		g, ok := u.X.(*ssa.Global)
		if !ok || g.Name() != "EOF" || g.Pkg.Pkg.Path() != "io" {
			return false, false
		}
		return true, true
	})
}

func runC09(c *Ctx) {
	p := c.Prog(core.CfgDefault)
	if p == nil {
		return
	}
	roles := resolveDo(c, p)
	if roles == nil {
		return
	}
	ruleInputStream(c, p, roles, "C09")
	ruleRetry(c, p, roles, "C09.retry")
	ruleWriterInvariant(c, p, "C09.writer")
	ruleRebuild(c, p, "C09.rebuild")
	ruleDict(c, p, "C09.dict")
	ruleCompressDst(c, p, "C09.dst")
	ruleVectoredEquiv(c, p, "C09.vectored")
	ruleExitGuards(c, p, "C09.guard")
	rulePacketRead(c, p, "C09.packet-read")
	rulePacketDeadline(c, p, "C09.deadline")
	ruleVersionArgs(c, p, "C09.version")
	ruleAllColumns(c, p, "C09.all-columns")
	ruleKeyWidth(c, p, "C09.keywidth")
	ruleInferByName(c, p, "C09.infer-name")
	ruleAutoKeepsCompatible(c, p, "C09.auto-keeps")
	rulePoolSingleDo(c, p, "C09.no-replay")
	ruleNoCapInEncoders(c, p, "C09.lenonly")
	ruleCompressibleTable(c, p, "C09.compressible-table")
	ruleNoPrivateTimer(c, p, "C09.timer")
	rulePrepareAlwaysRebuilds(c, p, "C09.prepare-rebuilds")
	ruleForwardEvery(c, p, "C09.forward-every")
	rulePrepareMethodSet(c, p, "C09.prepare-methodset")
	// what a round's block carries is what the column encoders of the build in use write
	for _, cf := range c.Configs() {
		if pc := c.Prog(cf); pc != nil {
			ruleBufGrowByAppend(c, pc, "C09.grow")
			ruleEveryElement(c, pc, "C09.every")
		}
	}
	c.R.Assumptions = append(c.R.Assumptions,
		"(*proto.Writer).Flush writes synchronously (net.Buffers.WriteTo) and drops every reference afterwards (C09.writer.* = the C14 induction steps)",
		"decided: order of encode / flush / callback / terminator on all paths; not decided: byte equality of each block with the snapshot taken inside the callback")
}

// ruleInputStream: ordering rules of the streamed-INSERT loop (shared by C09 and C02).
func ruleInputStream(c *Ctx, p *core.Program, roles *doRoles, prefix string) {
	cfg := p.Cfg.Name
	// the input streamer: the function of package ch that calls Query.OnInput
	var streamer *ssa.Function
	for _, fn := range p.Funcs() {
		if fn.Pkg == nil || fn.Pkg.Pkg.Path() != core.PkgCh {
			continue
		}
		for _, call := range core.Calls(fn) {
			if core.CalleeFunc(call) == nil && core.FieldOrigin(call.Common().Value, 0) == "Query.OnInput" {
				streamer = fn
			}
		}
	}
	if !c.must(p, "the input streamer (function calling Query.OnInput)", streamer != nil) {
		return
	}
	a := collectInputAtoms(streamer)
	c.R.Count("atoms E/B/F/C", len(a.E)+len(a.B)+len(a.F)+len(a.C))
	key := core.FuncName(streamer)
	c.R.Rule(prefix+".order", "anchor: the input streamer contains all four kinds of atoms - encodeBlock(Input), flush, the OnInput callback and the blank terminator; the ordering rules below are stated over them")
	if len(a.E) == 0 || len(a.B) == 0 || len(a.F) == 0 || len(a.C) == 0 {
		c.R.Unk(prefix+".order", key, cfg, p.Pos(streamer.Pos()), sprintf("atoms missing: E=%d B=%d F=%d C=%d", len(a.E), len(a.B), len(a.F), len(a.C)))
		return
	}
	c.R.Ok(prefix+".order", key, cfg, p.Pos(streamer.Pos()), sprintf("atoms E=%d B=%d F=%d C=%d", len(a.E), len(a.B), len(a.F), len(a.C)))
	isE, isB, isF := isIn(a.E), isIn(a.B), isIn(a.F)
	isC := func(in ssa.Instruction) bool {
		for _, x := range a.C {
			if x.(ssa.Instruction) == in {
				return true
			}
		}
		return false
	}

	// --- C09.flush: E ... C needs F in between
	rule := prefix + ".flush"
	c.R.Rule(rule, "on every path of the input streamer, a block encoded from the caller's columns is flushed before the input callback can run (zero-copy columns are referenced by the writer until Flush): no callback call is reachable from an encodeBlock(Input) without crossing flush, and the error of that flush is honoured")
	for _, e := range a.E {
		w := core.ReachAvoiding(core.PointOf(e), isC, isF, nil)
		k := core.CallKey(streamer, e.(ssa.CallInstruction))
		if len(w) > 0 {
			c.R.Bad(rule, k, cfg, p.Pos(w[0].At.Pos()), "the callback can run while an encoded-but-unflushed block still references the caller's columns", p.TrailString(w[0])...)
		} else {
			c.R.Ok(rule, k, cfg, p.Pos(e.Pos()), "flush lies on every path from the encode to the callback")
		}
	}
	// errors of E/F/B honoured
	cls := func(fn *ssa.Function, call ssa.CallInstruction) bool {
		in := call.(ssa.Instruction)
		return isE(in) || isF(in) || isB(in)
	}
	anyAtom := func(fn *ssa.Function, call ssa.CallInstruction) bool {
		in := call.(ssa.Instruction)
		return isE(in) || isF(in) || isB(in) || isC(in)
	}
	runErrDisc(c, p, []*ssa.Function{streamer}, errDiscOpts{Rule: rule, Class: cls, Again: anyAtom})

	// --- C09.terminator
	rule = prefix + ".terminator"
	c.R.Rule(rule, "every success exit of the input streamer that sent anything is preceded by exactly one blank terminator block: no success exit avoids it (other than the no-input-columns exit), nothing is encoded after it, and it is not in a loop")
	noInput := core.CondEdges(streamer, true, func(cond ssa.Value) (bool, bool) {
		bo, ok := cond.(*ssa.BinOp)
		if !ok || bo.Op != token.EQL {
			return false, false
		}
		if v, ok := core.ConstInt(bo.Y); !ok || v != 0 {
			return false, false
		}
		cl, ok := bo.X.(*ssa.Call)
		if !ok {
			return false, false
		}
		bi, ok := cl.Call.Value.(*ssa.Builtin)
		if !ok || bi.Name() != "len" {
			return false, false
		}
		return true, core.FieldOrigin(cl.Call.Args[0], 0) == "Query.Input"
	})
	succ := func(in ssa.Instruction) bool {
		r, ok := in.(*ssa.Return)
		if !ok {
			return false
		}
		rv := core.ReturnErr(streamer, r)
		return rv != nil && core.MayBeNilError(rv, 0)
	}
	w := core.ReachAvoiding(core.Entry(streamer), succ, isB, core.WithoutEdges(noInput))
	if len(w) > 0 {
		c.R.Bad(rule, key+"/missing", cfg, p.Pos(w[0].At.Pos()), "a success exit is reachable without the terminator block: the server waits for more data forever", p.TrailString(w[0])...)
	} else {
		c.R.Ok(rule, key+"/missing", cfg, p.Pos(streamer.Pos()), "every success exit passes the terminator")
	}
	dup := false
	for _, b := range a.B {
		w := core.ReachAvoiding(core.PointOf(b), func(in ssa.Instruction) bool { return isB(in) || isE(in) || isC(in) }, nil, nil)
		if len(w) > 0 {
			dup = true
			c.R.Bad(rule, key+"/after", cfg, p.Pos(w[0].At.Pos()), "another block, terminator or callback is reachable after the terminator", p.TrailString(w[0])...)
		}
	}
	if !dup {
		c.R.Ok(rule, key+"/after", cfg, p.Pos(a.B[0].Pos()), "nothing is encoded after the terminator")
	}

	// --- C09.callback
	rule = prefix + ".callback"
	c.R.Rule(rule, "E6 for the input callback: from each call of OnInput, no block, terminator, flush or success exit is reachable without crossing the nil edge of a test of its error or the true edge of errors.Is(err, io.EOF)")
	for _, call := range a.C {
		ev := core.ErrValue(call)
		k := core.CallKey(streamer, call)
		if ev == nil {
			c.R.Bad(rule, k, cfg, p.Pos(call.Pos()), "the callback's error is discarded")
			continue
		}
		al := core.Aliases(streamer, ev)
		eof := eofTrueEdges(streamer, al)
		edge := func(b *ssa.BasicBlock, i int) bool {
			if ifi, ok := b.Instrs[len(b.Instrs)-1].(*ssa.If); ok {
				if ns, ok := core.NilTest(ifi, al); ok && ns == i {
					return false
				}
			}
			for _, e := range eof {
				if e.B == b && e.Succ == i {
					return false
				}
			}
			return true
		}
		w := core.ReachAvoiding(core.PointOf(call.(ssa.Instruction)), func(in ssa.Instruction) bool {
			return isE(in) || isB(in) || isF(in) || succ(in)
		}, nil, edge)
		if len(w) > 0 {
			c.R.Bad(rule, k, cfg, p.Pos(w[0].At.Pos()), "a failing callback does not stop the stream: more output or a success exit is reachable on its error path", p.TrailString(w[0])...)
		} else {
			c.R.Ok(rule, k, cfg, p.Pos(call.Pos()), "a non-EOF error reaches only failure exits")
		}
	}

	// --- C09.tail
	rule = prefix + ".tail"
	c.R.Rule(rule, "end-of-input with rows left sends them: from every io.EOF edge of a callback, the terminator is reachable only through an encodeBlock(Input) or through the false edge of a test `Rows() > 0` of the first input column as it is after the callback returned (a column object fetched before the callback is stale when the callback swaps columns)")
	rowsFalse := core.PredEdges(streamer, false, func(cond ssa.Value) (bool, bool) {
		bo, ok := cond.(*ssa.BinOp)
		if !ok {
			return false, false
		}
		isRows := func(v ssa.Value) bool {
			cl, ok := v.(*ssa.Call)
			return ok && cl.Call.IsInvoke() && cl.Call.Method.Name() == "Rows"
		}
		zero := func(v ssa.Value) bool { i, ok := core.ConstInt(v); return ok && i == 0 }
		switch {
		case bo.Op == token.GTR && isRows(bo.X) && zero(bo.Y): // rows > 0
			return true, true
		case bo.Op == token.NEQ && isRows(bo.X) && zero(bo.Y): // rows != 0
			return true, true
		case bo.Op == token.EQL && isRows(bo.X) && zero(bo.Y): // rows == 0
			return false, true
		case bo.Op == token.LSS && zero(bo.X) && isRows(bo.Y): // 0 < rows
			return true, true
		case bo.Op == token.LEQ && isRows(bo.X) && zero(bo.Y): // rows <= 0
			return false, true
		case bo.Op == token.GEQ && zero(bo.X) && isRows(bo.Y): // 0 >= rows
			return false, true
		}
		return false, false
	})
	for _, call := range a.C {
		ev := core.ErrValue(call)
		if ev == nil {
			continue
		}
		al := core.Aliases(streamer, ev)
		k := core.CallKey(streamer, call)
		eof := eofTrueEdges(streamer, al)
		if len(eof) == 0 {
			c.R.Unk(rule, k, cfg, p.Pos(call.Pos()), "no errors.Is(err, io.EOF) test for this callback call")
			continue
		}
		// the rows test must look at the column that is in q.Input NOW: a column object fetched
		// before the callback ran is stale when the callback swaps columns in the Input slice
		var fresh []core.Edge
		for _, e := range rowsFalse {
			ifi := e.B.Instrs[len(e.B.Instrs)-1].(*ssa.If)
			bo, direct := ifi.Cond.(*ssa.BinOp)
			if !direct {
				// the test lives in a boolean helper called here, after the callback: it is fresh unless the
				// caller hands it a column object it fetched before the callback ran
				ok := true
				cv, _ := core.StripNot(ifi.Cond)
				if ex, isEx := cv.(*ssa.Extract); isEx {
					cv = ex.Tuple
				}
				if hc, isCall := cv.(*ssa.Call); isCall {
					for _, a := range hc.Call.Args {
						if _, isIface := a.Type().Underlying().(*types.Interface); !isIface {
							continue
						}
						if d, isInstr := a.(ssa.Instruction); !isInstr || core.Dominates(d, call.(ssa.Instruction)) {
							ok = false
						}
					}
				} else {
					ok = false
				}
				if ok {
					fresh = append(fresh, e)
				}
				continue
			}
			ok := true
			for _, side := range []ssa.Value{bo.X, bo.Y} {
				cl, isCall := side.(*ssa.Call)
				if !isCall || !cl.Call.IsInvoke() {
					continue
				}
				d, isInstr := cl.Call.Value.(ssa.Instruction)
				if !isInstr || core.Dominates(d, call.(ssa.Instruction)) {
					ok = false
				}
			}
			if ok {
				fresh = append(fresh, e)
			}
		}
		bad := false
		for _, e := range eof {
			start := core.Point{B: e.B.Succs[e.Succ], I: -1}
			w := core.ReachAvoiding(start, isB, isE, core.WithoutEdges(fresh))
			if len(w) > 0 {
				bad = true
				c.R.Bad(rule, k, cfg, p.Pos(w[0].At.Pos()), "on io.EOF the terminator is reachable without sending (or testing for) rows the callback left in the input columns: they are silently dropped", p.TrailString(w[0])...)
				break
			}
		}
		if !bad {
			c.R.Ok(rule, k, cfg, p.Pos(call.Pos()), "EOF path sends the tail rows or has tested that there are none")
		}
	}

	// --- C09.more
	rule = prefix + ".more"
	c.R.Rule(rule, "the stream ends only on end-of-input: from the nil-error edge of every callback call the terminator is reachable only through another callback call or through an io.EOF edge - a callback that returned nil (more input may follow, even if it produced no rows this time) never leads straight to the terminator")
	for _, call := range a.C {
		ev := core.ErrValue(call)
		if ev == nil {
			continue
		}
		al := core.Aliases(streamer, ev)
		k := core.CallKey(streamer, call)
		var allEOF []core.Edge
		for _, c2 := range a.C {
			if e2 := core.ErrValue(c2); e2 != nil {
				allEOF = append(allEOF, eofTrueEdges(streamer, core.Aliases(streamer, e2))...)
			}
		}
		nilEdges := core.CondEdges(streamer, false, func(cond ssa.Value) (bool, bool) {
			x, nonNil, ok := nilCmp(cond)
			if !ok || !al[x] {
				return false, false
			}
			return nonNil, true
		})
		// `f == nil` (callback cleared after EOF, or never given) is the other legitimate way to the terminator
		fNil := core.CondEdges(streamer, true, func(cond ssa.Value) (bool, bool) {
			x, nonNil, ok := nilCmp(cond)
			if !ok || core.FieldOrigin(x, 0) != "Query.OnInput" {
				return false, false
			}
			return !nonNil, true
		})
		bad := false
		for _, e := range nilEdges {
			start := core.Point{B: e.B.Succs[e.Succ], I: -1}
			w := core.ReachAvoiding(start, isB, isC, core.WithoutEdges(append(append([]core.Edge{}, allEOF...), fNil...)))
			if len(w) > 0 {
				bad = true
				c.R.Bad(rule, k, cfg, p.Pos(w[0].At.Pos()), "after a callback that returned nil the terminator is reachable without asking the callback again: later input rounds are silently lost", p.TrailString(w[0])...)
				break
			}
		}
		if !bad {
			c.R.Ok(rule, k, cfg, p.Pos(call.Pos()), "nil result leads back to the callback (or to EOF handling) before any terminator")
		}
	}

	// --- C09.eof-once
	rule = prefix + ".eof-once"
	c.R.Rule(rule, "end-of-input is final: from every io.EOF edge of a callback call, another callback call is reachable only after the callback variable has been cleared - the path enters a block through an edge on which the variable's phi takes nil (or stores nil to its cell); a path that keeps the callback (for instance because the clearing is nested under a logging condition) asks an exhausted source again and sends its leftover rows a second time")
	for _, call := range a.C {
		ev := core.ErrValue(call)
		if ev == nil {
			continue
		}
		al := core.Aliases(streamer, ev)
		k := core.CallKey(streamer, call)
		cbType := call.Common().Value.Type()
		isCbCall := func(in ssa.Instruction) bool {
			for _, c2 := range a.C {
				if c2.(ssa.Instruction) == in {
					return true
				}
			}
			return false
		}
		type edgeKey struct{ from, to *ssa.BasicBlock }
		seen := map[edgeKey]bool{}
		var hit ssa.Instruction
		var visit func(pred, b *ssa.BasicBlock)
		visit = func(pred, b *ssa.BasicBlock) {
			if hit != nil || seen[edgeKey{pred, b}] {
				return
			}
			seen[edgeKey{pred, b}] = true
			idx := -1
			for i, q := range b.Preds {
				if q == pred {
					idx = i
				}
			}
			for _, in := range b.Instrs {
				switch x := in.(type) {
				case *ssa.Phi:
					if idx >= 0 && types.Identical(x.Type(), cbType) && core.IsNilConst(x.Edges[idx]) {
						return
					}
				case *ssa.Store:
					if _, isCell := x.Addr.(*ssa.Alloc); isCell && core.IsNilConst(x.Val) && types.Identical(x.Val.Type(), cbType) {
						return
					}
				}
				if isCbCall(in) {
					hit = in
					return
				}
			}
			for _, sb := range b.Succs {
				visit(b, sb)
			}
		}
		eof := eofTrueEdges(streamer, al)
		for _, e := range eof {
			visit(e.B, e.B.Succs[e.Succ])
		}
		switch {
		case len(eof) == 0:
			c.R.Unk(rule, k, cfg, p.Pos(call.Pos()), "no errors.Is(err, io.EOF) test for this callback call")
		case hit != nil:
			c.R.Bad(rule, k, cfg, p.Pos(hit.Pos()), "after the callback reported io.EOF it can be called again without having been cleared: the leftover rows are sent, the exhausted source is asked again, and the same rows go out a second time")
		default:
			c.R.Ok(rule, k, cfg, p.Pos(call.Pos()), "every way back to a callback call from the EOF edge clears the callback first")
		}
	}

	// --- C09.final
	rule = prefix + ".final"
	c.R.Rule(rule, "in the sender goroutine the input streamer's success is followed by flush on every path to a success exit, and both errors are honoured")
	var si []ssa.Instruction
	senderFn := bodyOf(roles.Sender)
	for _, call := range core.Calls(senderFn) {
		if sf := core.StaticFn(call); sf == streamer {
			si = append(si, call.(ssa.Instruction))
		}
	}
	if len(si) != 1 {
		c.R.Unk(rule, core.FuncName(senderFn), cfg, p.Pos(senderFn.Pos()), sprintf("%d calls of the input streamer in the sender", len(si)))
	} else {
		succS := func(in ssa.Instruction) bool {
			r, ok := in.(*ssa.Return)
			if !ok {
				return false
			}
			rv := core.ReturnErr(senderFn, r)
			return rv != nil && core.MayBeNilError(rv, 0)
		}
		w := core.ReachAvoiding(core.PointOf(si[0]), succS, func(in ssa.Instruction) bool {
			return core.IsCallOf(in, isClientMethod("flush"))
		}, nil)
		if len(w) > 0 {
			c.R.Bad(rule, core.FuncName(senderFn), cfg, p.Pos(w[0].At.Pos()), "the sender can finish successfully without flushing the last blocks")
		} else {
			c.R.Ok(rule, core.FuncName(senderFn), cfg, p.Pos(si[0].Pos()), "flush follows sendInput on every success path")
		}
		scls := func(fn *ssa.Function, call ssa.CallInstruction) bool {
			f := core.CalleeFunc(call)
			return f != nil && (core.IsMethod(f, core.PkgCh, "Client", "flush") || core.IsMethod(f, core.PkgCh, "Client", "sendQuery") || core.StaticFn(call) == streamer)
		}
		runErrDisc(c, p, []*ssa.Function{senderFn}, errDiscOpts{Rule: rule, Class: scls})
	}
}

// ruleInferByName (C09 / C18): the server's column types reach the input columns of the same name.
func ruleInferByName(c *Ctx, p *core.Program, rule string) {
	c.R.Rule(rule, "in the client's INSERT path every Inferable.Infer call that hands a type from the server's header block (ColInfo.Type) to an input column is reachable only through the edge on which that column's name equals the header column's name (InputColumn.Name == ColInfo.Name): pairing by position gives a column another column's enum definition or precision whenever the caller's order differs from the table's")
	cfg := p.Cfg.Name
	n := 0
	for _, fn := range p.Funcs() {
		if pkgOf(fn) == nil || pkgOf(fn).Path() != core.PkgCh || fn.Blocks == nil {
			continue
		}
		for _, call := range core.Calls(fn) {
			cc := call.Common()
			if !cc.IsInvoke() || cc.Method.Name() != "Infer" || len(cc.Args) != 1 {
				continue
			}
			if core.FieldOrigin(cc.Args[0], 0) != "ColInfo.Type" {
				continue
			}
			n++
			key := core.CallKey(fn, call)
			isName := func(v ssa.Value, typ string) bool { return core.FieldOrigin(v, 0) == typ+".Name" }
			eq := core.CondEdges(fn, true, func(cond ssa.Value) (bool, bool) {
				v, pol := core.StripNot(cond)
				bo, ok := v.(*ssa.BinOp)
				if !ok || (bo.Op != token.EQL && bo.Op != token.NEQ) {
					return false, false
				}
				if !(isName(bo.X, "InputColumn") && isName(bo.Y, "ColInfo") || isName(bo.Y, "InputColumn") && isName(bo.X, "ColInfo")) {
					return false, false
				}
				if bo.Op == token.NEQ {
					pol = !pol
				}
				return pol, true
			})
			if len(eq) > 0 && core.OnlyViaEdges(fn, call.(ssa.Instruction), eq) {
				c.R.Ok(rule, key, cfg, p.Pos(call.Pos()), "Infer is behind InputColumn.Name == ColInfo.Name")
			} else {
				c.R.Bad(rule, key, cfg, p.Pos(call.Pos()), "an input column is given a header column's type without their names having been compared: columns are paired by position, so with a column order different from the table's every inferable column (Enum, DateTime64, Decimal, Auto) adopts another column's parameters")
			}
		}
	}
	c.R.Count("Infer calls fed from the header block", n)
	c.R.Floor(rule, cfg, n, 1)
}
