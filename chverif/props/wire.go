package props

import (
	"go/token"
	"go/types"
	"sort"
	"strings"

	"golang.org/x/tools/go/ssa"

	"chverif/core"
)

// primitive atom tables (verified against the implementation by C17.prims)
var bufferAtoms = map[string]string{
	"PutUVarInt": "UV", "PutInt": "UV", "PutLen": "UV",
	"PutString": "STR",
	"PutByte":   "U8", "PutUInt8": "U8", "PutInt8": "U8", "PutBool": "U8",
	"PutUInt16": "U16", "PutInt16": "U16",
	"PutUInt32": "U32", "PutInt32": "U32", "PutFloat32": "U32",
	"PutUInt64": "U64", "PutInt64": "U64", "PutFloat64": "U64",
	"PutUInt128": "U128", "PutInt128": "U128",
	"PutRaw": "RAW",
}

var readerAtoms = map[string]string{
	"UVarInt": "UV", "Int": "UV", "StrLen": "UV",
	"Str": "STR", "StrBytes": "STR", "StrAppend": "STR", "StrRaw": "STR",
	"UInt8": "U8", "Int8": "U8", "Byte": "U8", "Bool": "U8", "ReadByte": "U8",
	"UInt16": "U16", "Int16": "U16",
	"UInt32": "U32", "Int32": "U32", "Float32": "U32",
	"UInt64": "U64", "Int64": "U64", "Float64": "U64",
	"UInt128": "U128", "Int128": "U128",
	"ReadRaw": "RAW", "ReadFull": "RAW",
}

func hasStreamParam(sig *types.Signature) bool {
	isStream := func(t types.Type) bool {
		return core.IsNamed(t, core.PkgProto, "Buffer") || core.IsNamed(t, core.PkgProto, "Reader") || core.IsNamed(t, core.PkgProto, "Writer")
	}
	if sig.Recv() != nil && isStream(sig.Recv().Type()) {
		return true
	}
	for i := 0; i < sig.Params().Len(); i++ {
		if isStream(sig.Params().At(i).Type()) {
			return true
		}
	}
	return false
}

// concreteMethod resolves method name on the dynamic type of an interface
// value built by MakeInterface in the same function.
func concreteMethod(p *core.Program, v ssa.Value, name string) *ssa.Function {
	mi, ok := v.(*ssa.MakeInterface)
	if !ok {
		return nil
	}
	t := mi.X.Type()
	ms := p.Prog.MethodSets.MethodSet(t)
	for i := 0; i < ms.Len(); i++ {
		if ms.At(i).Obj().Name() == name {
			return p.Prog.MethodValue(ms.At(i))
		}
	}
	return nil
}

// accessPath renders the receiver of a codec call relative to the enclosing
// method's receiver: "", "Offsets", "Data", "index", "[i]", "call:raw" ...
func accessPath(v ssa.Value, d int) string {
	if d > 10 {
		return "?"
	}
	switch x := v.(type) {
	case *ssa.Parameter:
		if x.Parent().Signature.Recv() != nil && x == x.Parent().Params[0] {
			return "recv"
		}
		return "param:" + x.Name()
	case *ssa.FreeVar:
		return "free:" + x.Name()
	case *ssa.UnOp:
		if x.Op == token.MUL {
			return accessPath(x.X, d+1)
		}
	case *ssa.FieldAddr:
		return accessPath(x.X, d+1) + "." + fieldNameOnly(x.X.Type(), x.Field)
	case *ssa.Field:
		return accessPath(x.X, d+1) + "." + fieldNameOnly(x.X.Type(), x.Field)
	case *ssa.IndexAddr:
		return accessPath(x.X, d+1) + "[]"
	case *ssa.Index:
		return accessPath(x.X, d+1) + "[]"
	case *ssa.Alloc:
		// local copy of the receiver (value receivers are spilled)
		for _, r := range *x.Referrers() {
			if s, ok := r.(*ssa.Store); ok && s.Addr == x {
				return accessPath(s.Val, d+1)
			}
		}
		return "local"
	case *ssa.MakeInterface:
		return accessPath(x.X, d+1)
	case *ssa.ChangeInterface:
		return accessPath(x.X, d+1)
	case *ssa.ChangeType:
		return accessPath(x.X, d+1)
	case *ssa.TypeAssert:
		return accessPath(x.X, d+1)
	case *ssa.Extract:
		return accessPath(x.Tuple, d+1)
	case *ssa.Phi:
		var parts []string
		for _, e := range x.Edges {
			parts = append(parts, accessPath(e, d+1))
		}
		sort.Strings(parts)
		return strings.Join(uniqStr(parts), "|")
	case *ssa.Call:
		if f := core.CalleeFunc(x); f != nil {
			if len(x.Call.Args) > 0 && !x.Call.IsInvoke() {
				return accessPath(x.Call.Args[0], d+1) + ".call:" + f.Name()
			}
			return "call:" + f.Name()
		}
	case *ssa.Next:
		return accessPath(x.Iter, d+1)
	case *ssa.Range:
		return accessPath(x.X, d+1) + "[]"
	}
	return "?"
}

func uniqStr(s []string) []string {
	var out []string
	for i, x := range s {
		if i == 0 || x != s[i-1] {
			out = append(out, x)
		}
	}
	return out
}

func fieldNameOnly(t types.Type, idx int) string {
	n := fieldName(t, idx)
	if i := strings.LastIndex(n, "."); i >= 0 {
		return n[i+1:]
	}
	return n
}

func fieldName(t types.Type, idx int) string {
	if pt, ok := t.Underlying().(*types.Pointer); ok {
		t = pt.Elem()
	}
	st, ok := t.Underlying().(*types.Struct)
	if !ok || idx >= st.NumFields() {
		return "?"
	}
	return st.Field(idx).Name()
}

var codecClass = map[string]string{
	"EncodeColumn": "COL", "WriteColumn": "COL", "DecodeColumn": "COL",
	"EncodeState": "STATE", "DecodeState": "STATE",
}

// wireClassifier maps instructions to wire atoms. withPath adds the access
// path of the receiver to codec atoms (column level); msgOnly drops paths.
func wireClassifier(p *core.Program, withPath bool) func(fn *ssa.Function, in ssa.Instruction) atomDecision {
	return func(fn *ssa.Function, in ssa.Instruction) atomDecision {
		// direct append to b.Buf
		if st, ok := in.(*ssa.Store); ok {
			if fa, ok := st.Addr.(*ssa.FieldAddr); ok && core.IsNamed(fa.X.Type(), core.PkgProto, "Buffer") {
				if ap, ok := st.Val.(*ssa.Call); ok {
					if bi, ok := ap.Call.Value.(*ssa.Builtin); ok && bi.Name() == "append" {
						if isUvarintSlice(ap.Call.Args[1]) {
							return atomDecision{kind: akAtom, label: "UV"}
						}
						return atomDecision{kind: akAtom, label: "RAW" + constSliceLen(ap.Call.Args[1])}
					}
				}
			}
			return atomDecision{}
		}
		call, ok := in.(*ssa.Call)
		if !ok {
			return atomDecision{}
		}
		cc := call.Common()
		f := core.CalleeFunc(call)
		if f == nil {
			return atomDecision{}
		}
		recv := core.RecvNamed(f)
		name := f.Name()
		if recv != nil && recv.Obj().Pkg() != nil && recv.Obj().Pkg().Path() == core.PkgProto {
			switch recv.Obj().Name() {
			case "Buffer":
				if l, ok := bufferAtoms[name]; ok {
					if name == "PutRaw" && isUvarintSlice(cc.Args[1]) {
						l = "UV"
					}
					return atomDecision{kind: akAtom, label: l}
				}
				if name == "Encode" || name == "EncodeAware" {
					if m := concreteMethod(p, cc.Args[1], name); m != nil {
						return inlineOrCode(m)
					}
					return atomDecision{kind: akAtom, label: "DYN:" + name}
				}
				return atomDecision{}
			case "Reader":
				if l, ok := readerAtoms[name]; ok {
					if name == "ReadRaw" {
						if n, ok := core.ConstInt(cc.Args[1]); ok {
							return atomDecision{kind: akAtom, label: sprintf("RAW%d", n)}
						}
					}
					return atomDecision{kind: akAtom, label: l}
				}
				if name == "Decode" {
					if m := concreteMethod(p, cc.Args[1], name); m != nil {
						return atomDecision{kind: akInline, inline: m}
					}
					return atomDecision{kind: akAtom, label: "DYN:" + name}
				}
				return atomDecision{}
			case "Writer":
				switch name {
				case "ChainBuffer":
					if cl := closureOf(cc.Args[1]); cl != nil {
						return atomDecision{kind: akInline, inline: cl}
					}
					return atomDecision{kind: akAtom, label: "DYN:ChainBuffer"}
				case "ChainWrite":
					return atomDecision{kind: akAtom, label: "RAW"}
				}
				return atomDecision{}
			case "ClientCode", "ServerCode":
				if name == "Encode" {
					return atomDecision{} // packet code: routed by the dispatcher checks
				}
			}
		}
		if fn.Synthetic != "" {
			// bound-method wrapper / thunk: it is its target
			if sf := core.StaticFn(call); sf != nil && sf.Blocks != nil {
				return atomDecision{kind: akInline, inline: sf}
			}
		}
		if cls, ok := codecClass[name]; ok {
			// column codec: atom with access path, never inlined
			sig := cc.Signature()
			if hasStreamParam(sig) || cc.IsInvoke() {
				var rv ssa.Value
				if cc.IsInvoke() {
					rv = cc.Value
				} else if len(cc.Args) > 0 {
					rv = cc.Args[0]
				}
				l := cls
				if withPath && rv != nil {
					l += "(" + accessPath(rv, 0) + ")"
				}
				return atomDecision{kind: akAtom, label: l}
			}
		}
		if cc.IsInvoke() {
			switch name {
			case "EncodeAware", "DecodeAware", "Encode", "Decode", "DecodeResult":
				if hasStreamParam(cc.Signature()) {
					return atomDecision{kind: akAtom, label: "DYN:" + name}
				}
			}
			return atomDecision{}
		}
		// static library callee that handles the stream: inline
		if sf := core.StaticFn(call); sf != nil && sf.Blocks != nil && hasStreamParam(sf.Signature) && core.IsLib(pkgOf(sf)) {
			return inlineOrCode(sf)
		}
		// bound-method / closure wrappers handed to ChainBuffer are inlined above
		return atomDecision{}
	}
}

func inlineOrCode(m *ssa.Function) atomDecision {
	if recv := m.Signature.Recv(); recv != nil {
		if n := core.NamedOf(recv.Type()); n != nil && (n.Obj().Name() == "ClientCode" || n.Obj().Name() == "ServerCode") && m.Name() == "Encode" {
			return atomDecision{}
		}
	}
	return atomDecision{kind: akInline, inline: m}
}

func pkgOf(f *ssa.Function) *types.Package {
	o := f
	if f.Origin() != nil {
		o = f.Origin()
	}
	for o.Parent() != nil {
		o = o.Parent()
	}
	if o.Pkg != nil {
		return o.Pkg.Pkg
	}
	if o.Object() != nil {
		return o.Object().Pkg()
	}
	return nil
}

// constSliceLen: "16" when v is a full slice of an array of known length or a constant string.
func constSliceLen(v ssa.Value) string {
	switch x := v.(type) {
	case *ssa.Slice:
		if x.Low == nil && x.High == nil {
			if pt, ok := x.X.Type().Underlying().(*types.Pointer); ok {
				if at, ok := pt.Elem().Underlying().(*types.Array); ok {
					return sprintf("%d", at.Len())
				}
			}
		}
	}
	return ""
}

// revisionSamples collects the thresholds from the analysed tree: every
// declared Feature constant and every constant receiver of a Feature.In call;
// the sample is {t-1, t, t+1} for each plus 0 and max+1.
func revisionSamples(p *core.Program, all bool) []int64 {
	th := map[int64]bool{}
	sc := p.Pkgs[core.PkgProto].Types.Scope()
	for _, n := range sc.Names() {
		if cst, ok := sc.Lookup(n).(*types.Const); ok && core.IsNamed(cst.Type(), core.PkgProto, "Feature") {
			if v, ok := core.ConstInt(ssa.NewConst(cst.Val(), cst.Type())); ok {
				th[v] = true
			}
		}
	}
	for _, fn := range p.Funcs() {
		for _, call := range core.FindCalls(fn, isFeatureIn) {
			if v, ok := core.ConstInt(call.Common().Args[0]); ok {
				th[v] = true
			}
		}
	}
	set := map[int64]bool{0: true}
	var max int64
	for t := range th {
		set[t-1], set[t], set[t+1] = true, true, true
		if t > max {
			max = t
		}
	}
	set[max+1] = true
	if all {
		for r := int64(50000); r <= 54500; r++ {
			set[r] = true
		}
	}
	var out []int64
	for r := range set {
		out = append(out, r)
	}
	sort.Slice(out, func(i, j int) bool { return out[i] < out[j] })
	return out
}

// isUvarintSlice: v is buf[:n] with n the result of binary.PutUvarint(buf, x):
// a hand-rolled uvarint, same wire primitive as PutUVarInt.
func isUvarintSlice(v ssa.Value) bool {
	sl, ok := v.(*ssa.Slice)
	if !ok || sl.High == nil {
		return false
	}
	cl, ok := sl.High.(*ssa.Call)
	if !ok {
		return false
	}
	f := core.CalleeFunc(cl)
	return f != nil && core.IsFunc(f, "encoding/binary", "PutUvarint")
}

// fieldClassifier labels each primitive wire atom with the struct field it
// carries: for an encoder the field the written value is loaded from, for a
// decoder the field the read value is stored to. Atoms without a field are
// epsilon. Nested messages are inlined as in wireClassifier.
func fieldClassifier(p *core.Program) func(fn *ssa.Function, in ssa.Instruction) atomDecision {
	base := wireClassifier(p, false)
	return func(fn *ssa.Function, in ssa.Instruction) atomDecision {
		d := base(fn, in)
		if d.kind != akAtom {
			return d
		}
		call, ok := in.(*ssa.Call)
		if !ok {
			return atomDecision{kind: akAtom, label: "*"}
		}
		f := core.CalleeFunc(call)
		if f == nil {
			return atomDecision{kind: akAtom, label: "*"}
		}
		recv := core.RecvNamed(f)
		if recv == nil {
			return atomDecision{kind: akAtom, label: "*"}
		}
		name := ""
		switch recv.Obj().Name() {
		case "Buffer":
			if len(call.Call.Args) >= 2 {
				name = firstFieldOf(call.Call.Args[1])
			}
		case "Reader":
			name = fieldStoredFrom(fn, call)
		}
		if name == "" {
			name = "*"
		}
		return atomDecision{kind: akAtom, label: name}
	}
}

// firstFieldOf: the struct field v is computed from (through conversions and arithmetic).
func firstFieldOf(v ssa.Value) string {
	name := ""
	core.DependsOn(v, func(x ssa.Value) bool {
		switch y := x.(type) {
		case *ssa.Field:
			name = fieldNameOnly(y.X.Type(), y.Field)
			return true
		case *ssa.UnOp:
			if y.Op == token.MUL {
				if fa, ok := y.X.(*ssa.FieldAddr); ok {
					name = fieldNameOnly(fa.X.Type(), fa.Field)
					return true
				}
			}
		}
		return false
	}, false)
	return name
}

// fieldStoredFrom: the struct field of a message that receives (a value derived from) the result of call.
func fieldStoredFrom(fn *ssa.Function, call *ssa.Call) string {
	var res []ssa.Value
	res = append(res, call)
	for _, r := range *call.Referrers() {
		if e, ok := r.(*ssa.Extract); ok && e.Index == 0 {
			res = append(res, e)
		}
	}
	isRes := func(v ssa.Value) bool {
		for _, r := range res {
			if v == r {
				return true
			}
		}
		return false
	}
	best := ""
	var bestPos token.Pos
	for _, b := range fn.Blocks {
		for _, in := range b.Instrs {
			s, ok := in.(*ssa.Store)
			if !ok {
				continue
			}
			fa, ok := s.Addr.(*ssa.FieldAddr)
			if !ok {
				continue
			}
			if _, isParam := rootOf(fa.X).(*ssa.Parameter); !isParam {
				continue
			}
			if !core.DependsOn(s.Val, isRes, true) {
				continue
			}
			if best == "" || s.Pos() < bestPos {
				best, bestPos = fieldNameOnly(fa.X.Type(), fa.Field), s.Pos()
			}
		}
	}
	return best
}

func rootOf(v ssa.Value) ssa.Value {
	for {
		switch x := v.(type) {
		case *ssa.FieldAddr:
			v = x.X
			continue
		}
		return v
	}
}
