package props

import (
	"go/token"
	"go/types"
	"sort"
	"strings"

	"golang.org/x/tools/go/ssa"

	"chverif/core"
)

func init() { register("C15", runC15) }

type methKey struct{ typ, meth string }

// variantMethods maps (type, method) -> function for the codec methods of
// column types, with the repo-relative file that declares each.
func variantMethods(p *core.Program) map[methKey]*ssa.Function {
	out := map[methKey]*ssa.Function{}
	for _, ct := range columnTypes(p) {
		for _, m := range []string{"EncodeColumn", "WriteColumn", "DecodeColumn"} {
			if fn := methodOf(p, ct, m); fn != nil && fn.Blocks != nil {
				out[methKey{ct.Obj().Name(), m}] = fn
			}
		}
	}
	return out
}

// failureAtoms counts the failure exits of fn that are not caused by a read
// error: returns of a freshly constructed error (Errorf/New) - rejections.
func rejections(fn *ssa.Function) int {
	n := 0
	for _, b := range fn.Blocks {
		for _, in := range b.Instrs {
			r, ok := in.(*ssa.Return)
			if !ok {
				continue
			}
			rv := core.ReturnErr(fn, r)
			if cl, ok := rv.(*ssa.Call); ok {
				if f := core.CalleeFunc(cl); f != nil && (f.Name() == "Errorf" || f.Name() == "New") {
					n++
				}
			}
		}
	}
	return n
}

func runC15(c *Ctx) {
	pd := c.Prog(core.CfgDefault)
	pp := c.Prog(core.CfgPurego)
	if pd == nil || pp == nil {
		return
	}
	var p386 *core.Program
	if c.Thorough() {
		p386 = c.Prog(core.Cfg386)
	}

	ruleEnsureExact(c, pd, "C15.ensure")
	ruleBufGrowByAppend(c, pd, "C15.grow")
	ruleBufGrowByAppend(c, pp, "C15.grow")
	ruleEveryElement(c, pd, "C15.every")
	ruleEveryElement(c, pp, "C15.every")
	ruleLastIndex(c, pd, "C15.lastindex")
	ruleLastIndex(c, pp, "C15.lastindex")
	// ---- C15.pairs
	rule := "C15.pairs"
	c.R.Rule(rule, "the codec methods (EncodeColumn / WriteColumn / DecodeColumn) that are declared in different files in the default and in the purego configuration are paired by (type, method): every variant method has its sibling (ColRawOf exists only in the default build and is exempt), and both configurations type-check")
	dm, pm := variantMethods(pd), variantMethods(pp)
	var pairs []methKey
	for k, df := range dm {
		pf, ok := pm[k]
		if !ok {
			if k.typ == "ColRawOf" {
				c.R.Ok(rule, "pair/"+k.typ+"."+k.meth, "default+purego", pd.Pos(df.Pos()), "default-only by design").Trivial = true
				continue
			}
			c.R.Bad(rule, "pair/"+k.typ+"."+k.meth, "purego", pd.Pos(df.Pos()), "the pure-Go build has no "+k.typ+"."+k.meth)
			continue
		}
		if pd.File(df.Pos()) != pp.File(pf.Pos()) {
			pairs = append(pairs, k)
		}
	}
	for k, pf := range pm {
		if _, ok := dm[k]; !ok {
			c.R.Bad(rule, "pair/"+k.typ+"."+k.meth, "default", pp.Pos(pf.Pos()), "the default build has no "+k.typ+"."+k.meth)
		}
	}
	sort.Slice(pairs, func(i, j int) bool {
		if pairs[i].typ != pairs[j].typ {
			return pairs[i].typ < pairs[j].typ
		}
		return pairs[i].meth < pairs[j].meth
	})
	c.R.Count("variant method pairs", len(pairs))
	c.R.Floor(rule, "default+purego", len(pairs), 90)

	// ---- C15.shape
	rule = "C15.shape"
	c.R.Rule(rule, "per variant pair: the atom languages of the default and of the purego method are equal (empty word added on both sides: an early return on zero rows and a zero-length raw move are the same bytes), and both variants have the same number of rejections (failure exits that construct a fresh error rather than propagate a read error) - a variant that validates where its sibling does not differs in errors")
	cd, cp := wireClassifier(pd, true), wireClassifier(pp, true)
	for _, k := range pairs {
		key := "pair/" + k.typ + "." + k.meth
		df, pf := dm[k], pm[k]
		da := buildLang(df, langOpts{p: pd, classify: cd, revision: -1})
		pa := buildLang(pf, langOpts{p: pp, classify: cp, revision: -1})
		if len(da.undec)+len(pa.undec) > 0 {
			c.R.Unk(rule, key, "default+purego", pd.Pos(df.Pos()), strings.Join(append(da.undec, pa.undec...), "; "))
			continue
		}
		dd, pdf := da.determinize(), pa.determinize()
		dd.final[0], pdf.final[0] = true, true
		if ok, w := contained(dd, pdf); !ok {
			c.R.Bad(rule, key, "default+purego", pp.Pos(pf.Pos()), "the default variant can move ["+strings.Join(w, " ")+"], the purego variant cannot")
			continue
		}
		if ok, w := contained(pdf, dd); !ok {
			c.R.Bad(rule, key, "default+purego", pp.Pos(pf.Pos()), "the purego variant can move ["+strings.Join(w, " ")+"], the default variant cannot")
			continue
		}
		rd, rp := rejections(df), rejections(pf)
		if rd != rp {
			c.R.Bad(rule, key, "default+purego", pp.Pos(pf.Pos()), sprintf("the default variant has %d rejection exit(s), the purego variant %d: some input is an error in one build and a value in the other", rd, rp))
			continue
		}
		c.R.Ok(rule, key, "default+purego", pd.Pos(df.Pos()), sprintf("equal languages; %d rejection exits on both sides", rd))
	}

	// ---- C15.width / C15.append in all configurations
	for _, p := range []*core.Program{pd, pp, p386} {
		if p == nil {
			continue
		}
		ruleElementWidth(c, p, "C15.width")
		ruleSwapRegion(c, p, "C15.swap")
		ruleAppendFromOwnLength(c, p, "C15.append-from-len")
		ruleReadSizeUncapped(c, p, "C15.readsize")
		c.R.Rule("C15.append", "E4 (see C01.append) in every configuration: both variants leave bytes already in the buffer alone")
		ruleContentBlindCodecs(c, p, "C15.content-blind")
		n := runBufDisc(c, p, "C15.append")
		c.R.Floor("C15.append", p.Cfg.Name, n, 90)
		ruleEndian(c, p, "C15.endian")
		ruleClones(c, p, "C15.clones")
		ruleValidationLoops(c, p, "C15.validate")
		ruleGrowByAppend(c, p, "C15.fresh")
		ruleReaderSource(c, p, "C15.source")
	}
	if pd != nil {
		ruleWriterInvariant(c, pd, "C15.writer")
	}
	c.R.Assumptions = append(c.R.Assumptions,
		"the unsafe variants reinterpret []T as []byte on little-endian targets only (build constraint), so memory layout = wire layout there",
		"decided: both variants exist and type-check, same wire shape, element width = in-memory size, little-endian accessors with field offsets equal to the in-memory layout, same rejections, same treatment of prior buffer contents, columns grow only by append; not decided: identical results on all inputs beyond these conditions; decoding into a non-empty column is outside the property")
}

// ruleEndian (C15.endian)
func ruleEndian(c *Ctx, p *core.Program, rule string) {
	c.R.Rule(rule, "every encoding/binary accessor used by the column codecs and the multi-word helpers (bin*/binPut*) is LittleEndian; in the multi-word helpers the byte range b[lo:hi] given to PutUint64 / Uint64 equals the in-memory offset (types.Sizes.Offsetsof along the field path) of the struct word it carries, so the pure-Go image equals the memory image the default build copies")
	cfg := p.Cfg.Name
	sizes := p.Pkgs[core.PkgProto].TypesSizes
	nAcc, nWord := 0, 0
	for _, fn := range p.Funcs() {
		if pkgOf(fn) == nil || pkgOf(fn).Path() != core.PkgProto {
			continue
		}
		isCodec := strings.HasPrefix(fn.Name(), "bin") || fn.Name() == "EncodeColumn" || fn.Name() == "DecodeColumn" || fn.Name() == "WriteColumn"
		if !isCodec {
			continue
		}
		for _, call := range core.Calls(fn) {
			f := core.CalleeFunc(call)
			// a multi-word helper built from a narrower helper: binUInt256 = {binUInt128(b[0:]), binUInt128(b[16:])}
			if f != nil && strings.HasPrefix(fn.Name(), "bin") && strings.HasPrefix(f.Name(), "bin") && f.Pkg() != nil && f.Pkg().Path() == core.PkgProto {
				args := call.Common().Args
				var sl *ssa.Slice
				var val ssa.Value
				for _, a := range args {
					if x, ok := a.(*ssa.Slice); ok {
						sl = x
					} else {
						val = a
					}
				}
				if sl != nil {
					lo := int64(0)
					if sl.Low != nil {
						lo, _ = core.ConstInt(sl.Low)
					}
					off := int64(-1)
					if strings.HasPrefix(f.Name(), "binPut") && val != nil {
						off = fieldPathOffset(sizes, val)
					} else if cl, ok := call.(*ssa.Call); ok {
						off = storedFieldOffset(sizes, cl)
					}
					if off >= 0 {
						nWord++
						key := core.CallKey(fn, call)
						if off == lo {
							c.R.Ok(rule, key, cfg, p.Pos(call.Pos()), sprintf("half at struct offset %d <-> bytes [%d:]", off, lo))
						} else {
							c.R.Bad(rule, key, cfg, p.Pos(call.Pos()), sprintf("the half at in-memory offset %d is read from / written to bytes starting at %d: the pure-Go image differs from the memory image (limbs taken from the wrong place)", off, lo))
						}
					}
				}
				continue
			}
			if f == nil || f.Pkg() == nil || f.Pkg().Path() != "encoding/binary" {
				continue
			}
			recv := core.RecvNamed(f)
			if recv == nil {
				continue
			}
			nAcc++
			key := core.CallKey(fn, call)
			if recv.Obj().Name() != "littleEndian" {
				c.R.Bad(rule, key, cfg, p.Pos(call.Pos()), "a column codec uses "+recv.Obj().Name()+": ClickHouse's wire format and the memory image copied by the default build are little endian")
				continue
			}
			// accessor width = width of the byte window it is given
			if w := accessorBytes(f.Name()); w > 0 && len(call.Common().Args) >= 2 {
				if sl, ok := call.Common().Args[1].(*ssa.Slice); ok {
					if win := windowBytes(sl); win > 0 && win != w {
						c.R.Bad(rule, key+"/width", cfg, p.Pos(call.Pos()), sprintf("%s moves %d bytes but is given a %d-byte element window: the upper bytes of every element are dropped (or read from the neighbour)", f.Name(), w, win))
						continue
					}
				}
			}
			if !strings.HasPrefix(fn.Name(), "bin") {
				c.R.Ok(rule, key, cfg, p.Pos(call.Pos()), "LittleEndian").Trivial = true
				continue
			}
			// multi-word helper: byte range vs field offset
			args := call.Common().Args // recv, b[lo:hi], (value)
			sl, ok := args[1].(*ssa.Slice)
			if !ok || sl.Low == nil && sl.High == nil {
				c.R.Ok(rule, key, cfg, p.Pos(call.Pos()), "LittleEndian").Trivial = true
				continue
			}
			lo := int64(0)
			if sl.Low != nil {
				lo, _ = core.ConstInt(sl.Low)
			}
			var off int64 = -1
			if strings.HasPrefix(f.Name(), "Put") && len(args) == 3 {
				off = fieldPathOffset(sizes, args[2])
			} else {
				off = storedFieldOffset(sizes, call.(*ssa.Call))
			}
			if off < 0 {
				c.R.Ok(rule, key, cfg, p.Pos(call.Pos()), "LittleEndian (single word)").Trivial = true
				continue
			}
			nWord++
			if off == lo {
				c.R.Ok(rule, key, cfg, p.Pos(call.Pos()), sprintf("word at struct offset %d <-> bytes [%d:]", off, lo))
			} else {
				c.R.Bad(rule, key, cfg, p.Pos(call.Pos()), sprintf("the 64-bit word at in-memory offset %d is written to / read from bytes [%d:%d]: the pure-Go encoding differs from the memory image the default build sends (words swapped)", off, lo, lo+8))
			}
		}
	}
	c.R.Count("binary accessors in codecs["+cfg+"]", nAcc)
	// 4 words of the 128-bit pair + 8 of the 256-bit pair, or 4 halves when the wide pair is built from the narrow one
	if nWord < 8 {
		c.R.Unk(rule, "words", cfg, "", sprintf("%d multi-word accesses found, expected at least 8 (UInt128 and UInt256 put/get)", nWord))
	}
}

// fieldPathOffset: v is a chain of Field selections from a struct parameter; returns its byte offset.
func fieldPathOffset(sizes types.Sizes, v ssa.Value) int64 {
	var off int64
	found := false
	for {
		switch x := v.(type) {
		case *ssa.Field:
			st, ok := x.X.Type().Underlying().(*types.Struct)
			if !ok {
				return -1
			}
			off += offsetOfField(sizes, st, x.Field)
			found = true
			v = x.X
			continue
		case *ssa.UnOp:
			if x.Op == token.MUL {
				if fa, ok := x.X.(*ssa.FieldAddr); ok {
					st, ok := fa.X.Type().Underlying().(*types.Pointer).Elem().Underlying().(*types.Struct)
					if !ok {
						return -1
					}
					off += offsetOfField(sizes, st, fa.Field)
					found = true
					v = fa.X
					continue
				}
				if _, ok := x.X.(*ssa.Alloc); ok {
					v = x.X
					continue
				}
			}
		case *ssa.FieldAddr:
			st, ok := x.X.Type().Underlying().(*types.Pointer).Elem().Underlying().(*types.Struct)
			if !ok {
				return -1
			}
			off += offsetOfField(sizes, st, x.Field)
			found = true
			v = x.X
			continue
		}
		break
	}
	if !found {
		return -1
	}
	return off
}

func offsetOfField(sizes types.Sizes, st *types.Struct, idx int) int64 {
	fields := make([]*types.Var, st.NumFields())
	for i := range fields {
		fields[i] = st.Field(i)
	}
	return sizes.Offsetsof(fields)[idx]
}

// storedFieldOffset: the result of a Uint64 call is stored into a field of a
// composite literal (possibly nested); returns the byte offset of that field.
func storedFieldOffset(sizes types.Sizes, call *ssa.Call) int64 {
	for _, r := range *call.Referrers() {
		if s, ok := r.(*ssa.Store); ok && s.Val == ssa.Value(call) {
			if off := fieldPathOffset(sizes, s.Addr); off >= 0 {
				return off
			}
		}
	}
	return -1
}

// ruleGrowByAppend (C15.fresh): fixed-width decoders extend the column by append only.
func ruleGrowByAppend(c *Ctx, p *core.Program, rule string) {
	c.R.Rule(rule, "in DecodeColumn of every slice-typed fixed-width column, the value stored back to the column is an append chain rooted at the column's previous value (new rows come from append, i.e. zeroed or explicitly given) - never a re-slice into spare capacity, whose stale contents would differ between a fresh and a reset-after-use column")
	cfg := p.Cfg.Name
	n := 0
	for _, ct := range columnTypes(p) {
		if _, ok := ct.Underlying().(*types.Slice); !ok || ct.TypeParams().Len() > 0 {
			continue
		}
		fn := methodOf(p, ct, "DecodeColumn")
		if fn == nil || fn.Blocks == nil {
			continue
		}
		for _, b := range fn.Blocks {
			for _, in := range b.Instrs {
				s, ok := in.(*ssa.Store)
				if !ok {
					continue
				}
				pr, ok := s.Addr.(*ssa.Parameter)
				if !ok || pr != fn.Params[0] {
					continue
				}
				if w := core.ReachAvoiding(core.PointOf(s), func(x ssa.Instruction) bool {
					r, ok := x.(*ssa.Return)
					return ok && defaultSuccess(fn, r)
				}, nil, nil); len(w) == 0 {
					continue // store on a failure path only (dropping rows of a rejected block)
				}
				n++
				key := "grow/" + ct.Obj().Name()
				if bad := resliceInChain(s.Val, 0, map[ssa.Value]bool{}); bad != nil {
					c.R.Bad(rule, key, cfg, p.Pos(bad.Pos()), "the column is extended by re-slicing ("+bad.String()+") instead of append: elements that the loop does not store keep whatever the backing array held")
				} else {
					c.R.Ok(rule, key, cfg, p.Pos(s.Pos()), "grows by append")
				}
			}
		}
	}
	c.R.Count("slice-typed decoders["+cfg+"]", n)
	c.R.Floor(rule, cfg, n, 25)
}

func resliceInChain(v ssa.Value, d int, seen map[ssa.Value]bool) *ssa.Slice {
	if d > 12 || seen[v] {
		return nil
	}
	seen[v] = true
	switch x := v.(type) {
	case *ssa.Slice:
		if x.High != nil {
			if _, isAlloc := x.X.(*ssa.Alloc); !isAlloc {
				if h, ok := core.ConstInt(x.High); !ok || h != 0 {
					return x
				}
			}
		}
		return resliceInChain(x.X, d+1, seen)
	case *ssa.Phi:
		for _, e := range x.Edges {
			if b := resliceInChain(e, d+1, seen); b != nil {
				return b
			}
		}
	case *ssa.Call:
		if bi, ok := x.Call.Value.(*ssa.Builtin); ok && bi.Name() == "append" {
			return resliceInChain(x.Call.Args[0], d+1, seen)
		}
	case *ssa.ChangeType:
		return resliceInChain(x.X, d+1, seen)
	}
	return nil
}

// accessorBytes: Uint16/PutUint16 -> 2, ...
func accessorBytes(name string) int64 {
	name = strings.TrimPrefix(name, "Put")
	switch name {
	case "Uint16":
		return 2
	case "Uint32":
		return 4
	case "Uint64":
		return 8
	}
	return 0
}

// windowBytes: constant length of b[i:i+k] or b[:k] / b[a:b] with constant bounds; 0 when unknown.
func windowBytes(sl *ssa.Slice) int64 {
	if sl.High == nil {
		return 0
	}
	if hk, ok := core.ConstInt(sl.High); ok {
		lk := int64(0)
		if sl.Low != nil {
			var okl bool
			if lk, okl = core.ConstInt(sl.Low); !okl {
				return 0
			}
		}
		return hk - lk
	}
	if bo, ok := sl.High.(*ssa.BinOp); ok && bo.Op == token.ADD && sl.Low != nil {
		if k, okc := core.ConstInt(bo.Y); okc && bo.X == sl.Low {
			return k
		}
		if k, okc := core.ConstInt(bo.X); okc && bo.Y == sl.Low {
			return k
		}
	}
	return 0
}

// ruleValidationLoops: a loop that validates decoded elements cannot be bypassed.
func ruleValidationLoops(c *Ctx, p *core.Program, rule string) {
	c.R.Rule(rule, "in every DecodeColumn, a loop that can fail (an element-validation loop: a failure exit inside the loop body) lies on every path from the wire read to a success exit, except behind the `rows == 0` shortcut: a fast path that returns success around the loop accepts element values the other build configuration rejects (and, for Bool, leaves bytes other than 0/1 in memory typed as bool)")
	cfg := p.Cfg.Name
	n := 0
	for _, ct := range columnTypes(p) {
		fn := methodOf(p, ct, "DecodeColumn")
		if fn == nil || fn.Blocks == nil || len(fn.Params) < 3 {
			continue
		}
		rows := fn.Params[len(fn.Params)-1]
		// loop headers with a failing exit in their body
		var headers []*ssa.BasicBlock
		for _, b := range fn.Blocks {
			ret, ok := b.Instrs[len(b.Instrs)-1].(*ssa.Return)
			if !ok || b.Comment == "recover" {
				continue
			}
			rv := core.ReturnErr(fn, ret)
			if rv == nil || core.MayBeNilError(rv, 0) {
				continue
			}
			// the failing return is reached from inside a loop: some loop header dominates it and
			// the branch leading to it can alternatively continue the loop
			for _, pr := range b.Preds {
				if h := core.LoopHeader(pr.Instrs[len(pr.Instrs)-1]); h != nil {
					// validation, not a read: the loop body up to the test performs no wire read
					headers = append(headers, h)
				}
			}
		}
		if len(headers) == 0 {
			continue
		}
		rd := readerClass(p)
		zero := core.CondEdges(fn, true, func(cond ssa.Value) (bool, bool) {
			bo, ok := cond.(*ssa.BinOp)
			if !ok || bo.X != ssa.Value(rows) {
				return false, false
			}
			k, okc := core.ConstInt(bo.Y)
			if !okc || k != 0 {
				return false, false
			}
			switch bo.Op {
			case token.EQL, token.LEQ:
				return true, true
			case token.NEQ, token.GTR:
				return false, true
			}
			return false, false
		})
		nth := 0
		var partial []string
		full0 := n
		for _, h := range uniqBlocks(headers) {
			// only loops without wire reads in their body (reads fail on their own account)
			reads := false
			for _, b := range fn.Blocks {
				if !h.Dominates(b) {
					continue
				}
				for _, in := range b.Instrs {
					if call, ok := in.(ssa.CallInstruction); ok && rd(fn, call) && core.LoopHeader(in) == h {
						reads = true
					}
				}
			}
			if reads {
				continue
			}
			// the validating loop must visit every element: a counted loop with a stride, or a range over
			// a sub-slice, leaves elements unchecked (e.g. the tail when the stride does not divide the length)
			if why := partialLoop(h); why != "" {
				partial = append(partial, why)
				continue
			}
			n++
			nth++
			key := sprintf("%s.DecodeColumn/loop#%d", ct.Obj().Name(), nth)
			hits := core.ReachAvoiding(core.Entry(fn), func(x ssa.Instruction) bool {
				ret, ok := x.(*ssa.Return)
				return ok && x.Block().Comment != "recover" && defaultSuccess(fn, ret)
			}, func(x ssa.Instruction) bool { return x.Block() == h }, core.WithoutEdges(zero))
			if len(hits) > 0 {
				c.R.Bad(rule, key, cfg, p.Pos(hits[0].At.Pos()), "a success exit is reachable without entering the element-validation loop: values the loop would reject are accepted on that path", p.TrailString(hits[0])...)
			} else {
				c.R.Ok(rule, key, cfg, p.Pos(h.Instrs[0].Pos()), "every success exit passes the validation loop")
			}
		}
		if n == full0 && len(partial) > 0 {
			c.R.Bad(rule, ct.Obj().Name()+".DecodeColumn/coverage", cfg, p.Pos(fn.Pos()), "the decoder validates elements only in loops that do not visit every element ("+strings.Join(partial, "; ")+"): the elements in between / in the tail are accepted unchecked")
		}
	}
	c.R.Count("validation loops["+cfg+"]", n)
}

// partialLoop explains why the loop headed by h does not visit every element of a slice, or "".
func partialLoop(h *ssa.BasicBlock) string {
	for _, in := range h.Instrs {
		ph, ok := in.(*ssa.Phi)
		if !ok {
			break
		}
		for _, e := range ph.Edges {
			bo, ok := e.(*ssa.BinOp)
			if !ok || bo.X != ssa.Value(ph) || bo.Op != token.ADD {
				continue
			}
			if k, okc := core.ConstInt(bo.Y); okc && k != 1 {
				return sprintf("it advances by %d elements per iteration", k)
			}
		}
	}
	// a range over a proper sub-slice
	if ifi, ok := h.Instrs[len(h.Instrs)-1].(*ssa.If); ok {
		if bo, ok := ifi.Cond.(*ssa.BinOp); ok {
			for _, side := range []ssa.Value{bo.X, bo.Y} {
				if cl, ok := side.(*ssa.Call); ok {
					if bi, ok := cl.Call.Value.(*ssa.Builtin); ok && bi.Name() == "len" {
						if sl, ok := cl.Call.Args[0].(*ssa.Slice); ok && (sl.Low != nil || sl.High != nil) {
							if _, fresh := sl.X.(*ssa.Alloc); !fresh {
								return "it ranges over a sub-slice of the data"
							}
						}
					}
				}
			}
		}
	}
	return ""
}

func uniqBlocks(bs []*ssa.BasicBlock) []*ssa.BasicBlock {
	seen := map[*ssa.BasicBlock]bool{}
	var out []*ssa.BasicBlock
	for _, b := range bs {
		if !seen[b] {
			seen[b] = true
			out = append(out, b)
		}
	}
	return out
}

// ---- ensure (C15 / C07): Buffer.Ensure(n) leaves exactly n bytes
func ruleEnsureExact(c *Ctx, p *core.Program, rule string) {
	c.R.Rule(rule, "Buffer.Ensure(n) leaves a buffer of exactly n bytes: every value it stores to Buf has a length that is the parameter n itself - Buf[:n], make([]byte, n[, cap]) or append(Buf[:0], make([]byte, n)...) - never a rounded-up or otherwise derived amount (only the capacity may be larger): Reader.ReadRaw and StrRaw read len(Buf) bytes from the stream, so a longer scratch buffer swallows the beginning of the next value (the pure-Go column decoders read whole columns through it)")
	cfg := p.Cfg.Name
	en := p.Method(core.PkgProto, "Buffer", "Ensure")
	if !c.must(p, "(*proto.Buffer).Ensure", en != nil && len(en.Params) == 2) {
		return
	}
	n := en.Params[1]
	isN := func(v ssa.Value) bool { return v != nil && stripConv(v) == ssa.Value(n) }
	var lenOf func(v ssa.Value, d int) (exact bool, known bool)
	lenOf = func(v ssa.Value, d int) (bool, bool) {
		if d > 4 {
			return false, false
		}
		switch x := v.(type) {
		case *ssa.Slice:
			if x.High != nil {
				return isN(x.High), true
			}
			if x.Low == nil {
				return lenOf(x.X, d+1)
			}
		case *ssa.MakeSlice:
			return isN(x.Len), true
		case *ssa.Call:
			if bi, ok := x.Call.Value.(*ssa.Builtin); ok && bi.Name() == "append" && len(x.Call.Args) == 2 {
				// append(base[:0], tail...)
				if sl, ok := x.Call.Args[0].(*ssa.Slice); ok && sl.High != nil {
					if k, okc := core.ConstInt(sl.High); okc && k == 0 {
						return lenOf(x.Call.Args[1], d+1)
					}
				}
			}
		case *ssa.Phi:
			all := true
			for _, e := range x.Edges {
				ex, kn := lenOf(e, d+1)
				if !kn {
					return false, false
				}
				all = all && ex
			}
			return all, true
		}
		return false, false
	}
	stores := storesToBuf(en)
	if len(stores) == 0 {
		// delegated: Ensure calls a helper with n
		c.R.Unk(rule, core.FuncName(en), cfg, p.Pos(en.Pos()), "no store to Buf in Ensure")
		return
	}
	for i, s := range stores {
		key := sprintf("%s/store#%d", core.FuncName(en), i+1)
		exact, known := lenOf(s.Val, 0)
		switch {
		case !known:
			c.R.Unk(rule, key, cfg, p.Pos(s.Pos()), "the length of the stored slice is not one of the recognised forms")
		case !exact:
			c.R.Bad(rule, key, cfg, p.Pos(s.Pos()), "Ensure leaves a buffer whose length is not the requested n: ReadRaw/StrRaw then read more bytes than the value has and return them to the decoder")
		default:
			c.R.Ok(rule, key, cfg, p.Pos(s.Pos()), "len(Buf) = n")
		}
	}
}

func storesToBuf(fn *ssa.Function) []*ssa.Store {
	var out []*ssa.Store
	for _, b := range fn.Blocks {
		for _, in := range b.Instrs {
			s, ok := in.(*ssa.Store)
			if !ok {
				continue
			}
			if fa, ok := s.Addr.(*ssa.FieldAddr); ok && core.IsNamed(fa.X.Type(), core.PkgProto, "Buffer") && fieldNameOnly(fa.X.Type(), fa.Field) == "Buf" {
				out = append(out, s)
			}
		}
	}
	return out
}

// ruleBufGrowByAppend (C14 / C15 / C01): encoders extend Buffer.Buf by append only.
func ruleBufGrowByAppend(c *Ctx, p *core.Program, rule string) {
	c.R.Rule(rule, "every value stored to Buffer.Buf in package proto is an append chain (or a truncation to length 0) rooted at the buffer: new bytes come from append - zeroed by make or explicitly given - never from re-slicing into spare capacity (slices.Grow(b.Buf, n)[:len+n], b.Buf[:len+n]), whose stale contents differ between a fresh buffer and the writer's reused staging buffer: an encoder that then stores only the non-zero values emits bytes of the previous flush cycle")
	cfg := p.Cfg.Name
	n := 0
	for _, fn := range p.Funcs() {
		if pkgOf(fn) == nil || pkgOf(fn).Path() != core.PkgProto || fn.Blocks == nil || strings.HasPrefix(fn.Name(), "verifFixture") {
			continue
		}
		k := 0
		for _, s := range storesToBuf(fn) {
			n++
			k++
			key := sprintf("%s/buf-store#%d", core.FuncName(fn), k)
			bad := resliceInChain(s.Val, 0, map[ssa.Value]bool{})
			// a call that is not append (slices.Grow, slices.Clip ...) followed by a reslice is caught above;
			// a bare call result other than append is not an append chain either
			if bad == nil {
				if cl, ok := s.Val.(*ssa.Call); ok {
					if bi, okb := cl.Call.Value.(*ssa.Builtin); !okb || bi.Name() != "append" {
						if f := core.CalleeFunc(cl); f != nil && f.Pkg() != nil && f.Pkg().Path() == "slices" {
							c.R.Bad(rule, key, cfg, p.Pos(s.Pos()), "Buffer.Buf is replaced by the result of slices."+f.Name()+": not an append chain")
							continue
						}
					}
				}
			}
			if bad != nil {
				c.R.Bad(rule, key, cfg, p.Pos(bad.Pos()), "the buffer is extended by re-slicing ("+bad.String()+") instead of append: bytes the encoder does not store keep whatever the reused staging buffer held there")
			} else {
				c.R.Ok(rule, key, cfg, p.Pos(s.Pos()), "append chain")
			}
		}
	}
	c.R.Count("stores to Buffer.Buf["+cfg+"]", n)
	c.R.Floor(rule, cfg, n, 40)
}

// ruleEveryElement (C15 / C14): an encoder loop writes every element it visits.
func ruleEveryElement(c *Ctx, p *core.Program, rule string) {
	c.R.Rule(rule, "an encoder that fills the tail of Buffer.Buf element by element writes on every iteration: in every proto function that stores into Buffer.Buf inside a loop (binary Put* into a slice of Buf, an indexed store, copy), no path through the loop body returns to the loop header without such a write - a `skip zero values, the region is already zeroed` shortcut drops the sign of -0.0 in the pure-Go float encoders, and together with a non-zeroing grow leaves stale bytes")
	cfg := p.Cfg.Name
	n := 0
	for _, fn := range p.Funcs() {
		if pkgOf(fn) == nil || pkgOf(fn).Path() != core.PkgProto || fn.Blocks == nil || strings.HasPrefix(fn.Name(), "verifFixture") {
			continue
		}
		fromBuf := func(v ssa.Value) bool {
			return core.DependsOn(v, func(x ssa.Value) bool { return core.FieldOrigin(x, 0) == "Buffer.Buf" }, false)
		}
		writes := func(in ssa.Instruction) bool {
			switch x := in.(type) {
			case *ssa.Store:
				if ia, ok := x.Addr.(*ssa.IndexAddr); ok && fromBuf(ia.X) {
					return true
				}
			case *ssa.Call:
				if bi, ok := x.Call.Value.(*ssa.Builtin); ok && bi.Name() == "copy" && fromBuf(x.Call.Args[0]) {
					return true
				}
				f := core.CalleeFunc(x)
				if f != nil && strings.HasPrefix(f.Name(), "Put") || f != nil && strings.HasPrefix(f.Name(), "binPut") {
					for _, a := range x.Call.Args {
						if _, isSl := a.Type().Underlying().(*types.Slice); isSl && fromBuf(a) {
							return true
						}
					}
				}
			}
			return false
		}
		seenHdr := map[*ssa.BasicBlock]bool{}
		for _, b := range fn.Blocks {
			for _, in := range b.Instrs {
				if !writes(in) || !core.InLoop(in) {
					continue
				}
				hdr := core.LoopHeader(in)
				if hdr == nil || seenHdr[hdr] {
					continue
				}
				seenHdr[hdr] = true
				n++
				key := sprintf("%s/loop@%d", core.FuncName(fn), hdr.Index)
				// from each entry into the loop body (successors of the header that stay in the loop) back to the header
				bad := false
				for _, sb := range hdr.Succs {
					if !hdr.Dominates(sb) || sb == hdr {
						continue
					}
					// does sb lead back to the header at all (is it the body)?
					if len(core.ReachAvoiding(core.Point{B: sb, I: -1}, func(x ssa.Instruction) bool { return x.Block() == hdr }, nil, nil)) == 0 {
						continue
					}
					w := core.ReachAvoiding(core.Point{B: sb, I: -1}, func(x ssa.Instruction) bool { return x.Block() == hdr }, writes, nil)
					if len(w) > 0 {
						bad = true
						c.R.Bad(rule, key, cfg, p.Pos(in.Pos()), "an iteration of the encoding loop can complete without writing its element: the bytes of that element are whatever the buffer held (zero for a fresh append - wrong for -0.0 - or stale data)", p.TrailString(w[0])...)
						break
					}
				}
				if !bad {
					c.R.Ok(rule, key, cfg, p.Pos(in.Pos()), "every iteration writes")
				}
			}
		}
	}
	c.R.Count("encoding loops["+cfg+"]", n)
	if cfg == core.CfgPurego.Name {
		c.R.Floor(rule, cfg, n, 20)
	}
}

// ruleSwapRegion (C02 / C01 / C15): the byte swap of an encoder covers exactly the bytes it appended.
func ruleSwapRegion(c *Ctx, p *core.Program, rule string) {
	c.R.Rule(rule, "where an encoder of package proto byte-swaps a region of Buffer.Buf (bswap.Swap64 on Buf[low:]), low is the length of Buf read before the encoder grew it - the value of len(Buf) itself, not a cursor that the copy loop advanced: swapping from the advanced cursor is a no-op and the UUIDs go out in RFC byte order (pure-Go build only)")
	cfg := p.Cfg.Name
	n := 0
	for _, fn := range p.Funcs() {
		if pkgOf(fn) == nil || pkgOf(fn).Path() != core.PkgProto || fn.Blocks == nil {
			continue
		}
		for _, call := range core.Calls(fn) {
			f := core.CalleeFunc(call)
			if f == nil || f.Pkg() == nil || !strings.HasSuffix(f.Pkg().Path(), "asm/bswap") || len(call.Common().Args) != 1 {
				continue
			}
			sl, ok := call.Common().Args[0].(*ssa.Slice)
			if !ok || core.FieldOrigin(sl.X, 0) != "Buffer.Buf" {
				continue
			}
			n++
			key := core.CallKey(fn, call)
			if sl.High != nil || sl.Low == nil {
				c.R.Unk(rule, key, cfg, p.Pos(call.Pos()), "swapped region is not Buf[low:]")
				continue
			}
			low := stripConv(sl.Low)
			if cl, ok := low.(*ssa.Call); ok {
				if bi, ok := cl.Call.Value.(*ssa.Builtin); ok && bi.Name() == "len" && core.FieldOrigin(cl.Call.Args[0], 0) == "Buffer.Buf" {
					c.R.Ok(rule, key, cfg, p.Pos(call.Pos()), "swaps from the length Buf had before the append")
					continue
				}
			}
			if _, isPhi := low.(*ssa.Phi); isPhi {
				c.R.Bad(rule, key, cfg, p.Pos(call.Pos()), "the swapped region starts at a cursor the copy loop has advanced, not at the length Buf had before the append: nothing (or only a part) of what was appended is swapped to wire order")
				continue
			}
			c.R.Unk(rule, key, cfg, p.Pos(call.Pos()), "start of the swapped region not recognised: "+low.String())
		}
	}
	c.R.Count("byte-swapped Buf regions["+cfg+"]", n)
}

// ruleAppendFromOwnLength (C15 / C06): a decoder that appends row by row starts from the rows it already had.
func ruleAppendFromOwnLength(c *Ctx, p *core.Program, rule string) {
	c.R.Rule(rule, "in every DecodeColumn of package proto that appends one element per decoded value inside a loop, the slice the loop starts from is the column's own data (or a copy of the same length): a pre-allocation whose length - not capacity - already includes the announced row count (make([]T, len(v)+rows)) makes the loop append behind it, the column ends up with twice the rows (the first half zero) and no error; only the pure-Go codecs append per element")
	cfg := p.Cfg.Name
	n := 0
	for _, fn := range p.Funcs() {
		if pkgOf(fn) == nil || pkgOf(fn).Path() != core.PkgProto || fn.Name() != "DecodeColumn" || fn.Blocks == nil || len(fn.Params) < 3 {
			continue
		}
		rows := fn.Params[len(fn.Params)-1]
		for _, call := range core.Calls(fn) {
			cl, ok := call.(*ssa.Call)
			if !ok || !core.InLoop(cl) {
				continue
			}
			bi, ok := cl.Call.Value.(*ssa.Builtin)
			if !ok || bi.Name() != "append" || len(cl.Call.Args) != 2 {
				continue
			}
			ph, ok := cl.Call.Args[0].(*ssa.Phi)
			if !ok {
				continue
			}
			n++
			key := core.FuncName(fn) + sprintf("/append@%d", cl.Block().Index)
			var bad ssa.Value
			seen := map[ssa.Value]bool{}
			var walk func(v ssa.Value)
			walk = func(v ssa.Value) {
				if seen[v] || v == ssa.Value(cl) {
					return
				}
				seen[v] = true
				switch x := v.(type) {
				case *ssa.Phi:
					for _, e := range x.Edges {
						walk(e)
					}
				case *ssa.MakeSlice:
					if core.DependsOn(x.Len, func(y ssa.Value) bool { return y == ssa.Value(rows) }, false) {
						bad = x
					}
				case *ssa.Slice:
					walk(x.X)
				case *ssa.ChangeType:
					walk(x.X)
				}
			}
			walk(ph)
			if bad != nil {
				c.R.Bad(rule, key, cfg, p.Pos(bad.Pos()), "the slice the append loop starts from was made with a length that already counts the rows to decode: the decoded values are appended behind that many zero elements")
			} else {
				c.R.Ok(rule, key, cfg, p.Pos(cl.Pos()), "the append loop starts from the column's own data")
			}
		}
	}
	c.R.Count("element-wise append loops in DecodeColumn["+cfg+"]", n)
	if cfg == core.CfgPurego.Name {
		c.R.Floor(rule, cfg, n, 10)
	}
}
