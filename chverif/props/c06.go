package props

import (
	"go/constant"
	"go/token"
	"go/types"
	"sort"
	"strings"

	"golang.org/x/tools/go/ssa"

	"chverif/core"
)

func init() { register("C06", runC06) }

// ---------------------------------------------------------------------------
// boundedness of allocation sizes

type boundCtx struct {
	p       *core.Program
	callers map[*ssa.Function][]ssa.CallInstruction // static call sites per callee
	memo    map[ssa.Value]int                       // 1 in progress, 2 bounded, 3 unbounded
	why     map[ssa.Value]string
}

func newBoundCtx(p *core.Program) *boundCtx {
	bc := &boundCtx{p: p, callers: map[*ssa.Function][]ssa.CallInstruction{}, memo: map[ssa.Value]int{}, why: map[ssa.Value]string{}}
	for _, fn := range p.Funcs() {
		for _, call := range core.Calls(fn) {
			if sf := core.StaticFn(call); sf != nil {
				o := sf
				if sf.Origin() != nil {
					o = sf.Origin()
				}
				bc.callers[sf] = append(bc.callers[sf], call)
				if o != sf {
					bc.callers[o] = append(bc.callers[o], call)
				}
			}
		}
	}
	return bc
}

func isWireRead(v ssa.Value) bool {
	cl, ok := v.(*ssa.Call)
	if !ok {
		return false
	}
	f := core.CalleeFunc(cl)
	if f == nil {
		return false
	}
	if core.IsMethod(f, core.PkgProto, "Reader", f.Name()) {
		switch f.Name() {
		case "UVarInt", "Int", "StrLen", "Int8", "Int16", "Int32", "Int64", "UInt8", "UInt16", "UInt32", "UInt64", "Byte":
			return true
		}
	}
	if f.Pkg() != nil && f.Pkg().Path() == "encoding/binary" && strings.HasPrefix(f.Name(), "Uint") {
		return true
	}
	return false
}

// bounded: the int value v (used at instruction `at`) cannot be an arbitrary
// wire-derived number: it is constant, a length of existing memory, a contract
// parameter whose call sites are bounded, checked by checkRows or against a
// constant on a dominating edge, or linear in such values with constant factors.
func (bc *boundCtx) bounded(v ssa.Value, at ssa.Instruction, d int) bool {
	if d > 14 {
		return false
	}
	switch bc.memo[v] {
	case 1, 2:
		return true
	case 3:
		return false
	}
	bc.memo[v] = 1
	ok := bc.bounded1(v, at, d)
	if ok {
		bc.memo[v] = 2
	} else {
		bc.memo[v] = 3
	}
	return ok
}

func (bc *boundCtx) bounded1(v ssa.Value, at ssa.Instruction, d int) bool {
	if _, ok := core.ConstInt(v); ok {
		return true
	}
	if bc.checkedOnPath(v, at) {
		return true
	}
	switch x := v.(type) {
	case *ssa.Call:
		if bi, ok := x.Call.Value.(*ssa.Builtin); ok && (bi.Name() == "len" || bi.Name() == "cap" || bi.Name() == "min") {
			if bi.Name() == "min" {
				for _, a := range x.Call.Args {
					if bc.bounded(a, at, d+1) {
						return true
					}
				}
				return false
			}
			return true
		}
		if isWireRead(x) {
			bc.why[v] = "read from the wire"
			return false
		}
		if f := core.CalleeFunc(x); f != nil && (f.Name() == "Rows" || f.Name() == "Sizeof") {
			return true
		}
		return false
	case *ssa.Extract:
		if isWireRead(x.Tuple) {
			bc.why[v] = "read from the wire (" + core.FuncKey(core.CalleeFunc(x.Tuple.(*ssa.Call))) + ")"
			return false
		}
		// a library helper that reads and validates: bounded when the value it returns is bounded at
		// each of its success exits (the caller uses it behind the helper's error, rule *.errors)
		if cl, ok := x.Tuple.(*ssa.Call); ok {
			if g := core.StaticFn(cl); g != nil && g.Blocks != nil && pkgOf(g) != nil && core.IsLib(pkgOf(g)) {
				nret := 0
				for _, b := range g.Blocks {
					ret, ok := b.Instrs[len(b.Instrs)-1].(*ssa.Return)
					if !ok || !defaultSuccess(g, ret) || len(ret.Results) <= x.Index {
						continue
					}
					nret++
					if !bc.bounded(ret.Results[x.Index], ret, d+1) {
						bc.why[v] = "returned by " + g.Name() + ": " + bc.why[ret.Results[x.Index]]
						return false
					}
				}
				return nret > 0
			}
		}
		return false
	case *ssa.Convert:
		return bc.bounded(x.X, at, d+1)
	case *ssa.ChangeType:
		return bc.bounded(x.X, at, d+1)
	case *ssa.BinOp:
		switch x.Op {
		case token.ADD, token.SUB:
			return bc.bounded(x.X, at, d+1) && bc.bounded(x.Y, at, d+1)
		case token.MUL:
			// linear only: one factor must be a small constant (element size)
			if k, ok := core.ConstInt(x.Y); ok && k >= 0 && k <= 4096 {
				return bc.bounded(x.X, at, d+1)
			}
			if k, ok := core.ConstInt(x.X); ok && k >= 0 && k <= 4096 {
				return bc.bounded(x.Y, at, d+1)
			}
			// one factor is the column's own configuration (ColFixedStr.Size, ColRaw.Size): a precondition set by the caller / the type
			if isRecvConfig(x.X) && bc.bounded(x.Y, at, d+1) || isRecvConfig(x.Y) && bc.bounded(x.X, at, d+1) {
				return true
			}
			bc.why[v] = "product of two non-constant values"
			return false
		case token.QUO, token.REM, token.AND, token.SHR:
			return bc.bounded(x.X, at, d+1)
		}
		return false
	case *ssa.Phi:
		for _, e := range x.Edges {
			if !bc.bounded(e, at, d+1) {
				bc.why[v] = bc.why[e]
				return false
			}
		}
		return true
	case *ssa.Parameter:
		fn := x.Parent()
		idx := -1
		for i, q := range fn.Params {
			if q == x {
				idx = i
			}
		}
		// the row-count contract of the codec interface, checked at its call sites by rule C06.rows
		if (fn.Name() == "DecodeColumn" || fn.Name() == "DecodeResult") && x.Type().String() == "int" {
			return true
		}
		if _, ok := x.Type().Underlying().(*types.Basic); !ok {
			return true // not a number
		}
		sites := bc.callers[fn]
		if len(sites) == 0 {
			// exported entry point: the caller's number
			return true
		}
		for _, cs := range sites {
			args := cs.Common().Args
			if idx >= len(args) || !bc.bounded(args[idx], cs.(ssa.Instruction), d+1) {
				bc.why[v] = "argument of " + core.FuncName(cs.Parent()) + ": " + bc.why[args[idx]]
				return false
			}
		}
		return true
	case *ssa.UnOp:
		if x.Op == token.MUL {
			// field / element / cell load: struct fields set by checked decoders (Block.Rows ...) and locals
			if al, ok := x.X.(*ssa.Alloc); ok {
				n := 0
				for _, r := range *al.Referrers() {
					if s, ok := r.(*ssa.Store); ok && s.Addr == al {
						n++
						if !bc.bounded(s.Val, s, d+1) {
							return false
						}
					}
				}
				return n > 0
			}
			if _, isElem := x.X.(*ssa.IndexAddr); isElem {
				// element of a (just decoded) column: a wire value unless validated on the path
				bc.why[v] = "an element of a decoded column (wire-derived)"
				return false
			}
			return true // struct fields (Block.Rows, configuration): validated where they are set
		}
		if x.Op == token.SUB {
			return bc.bounded(x.X, at, d+1)
		}
	case *ssa.Field, *ssa.Index, *ssa.Lookup:
		return true
	}
	return false
}

// checkedOnPath: v (or a conversion of it) is validated on every path to `at`:
// checkRows(v) returned nil, or v was compared with a constant upper bound.
func (bc *boundCtx) checkedOnPath(v ssa.Value, at ssa.Instruction) bool {
	fn := at.Parent()
	same := func(x ssa.Value) bool {
		for {
			if x == v {
				return true
			}
			switch y := x.(type) {
			case *ssa.Convert:
				x = y.X
				continue
			case *ssa.ChangeType:
				x = y.X
				continue
			}
			return false
		}
	}
	vs := func(x ssa.Value) bool {
		if same(x) {
			return true
		}
		// v itself may be the conversion
		if cv, ok := v.(*ssa.Convert); ok && (cv.X == x) {
			return true
		}
		return false
	}
	// checkRows
	for _, call := range core.FindCalls(fn, func(f *types.Func) bool { return core.IsFunc(f, core.PkgProto, "checkRows") }) {
		if !vs(call.Common().Args[0]) {
			continue
		}
		ev := core.ErrValue(call)
		if ev == nil {
			continue
		}
		al := core.Aliases(fn, ev)
		edges := core.CondEdges(fn, false, func(cond ssa.Value) (bool, bool) {
			x, nonNil, ok := nilCmp(cond)
			if !ok || !al[x] {
				return false, false
			}
			return nonNil, true
		})
		if len(edges) > 0 && core.OnlyViaEdges(fn, at, edges) {
			return true
		}
	}
	// v <= K / v > K -> fail
	upper := core.PredEdges(fn, false, func(cond ssa.Value) (bool, bool) {
		bo, ok := cond.(*ssa.BinOp)
		if !ok {
			return false, false
		}
		// inside a boolean helper of the package (validColumns(n)) the tested value is its parameter
		inHelper := func(x ssa.Value) bool {
			pr, isP := stripConv(x).(*ssa.Parameter)
			return isP && pr.Parent() != fn
		}
		// ... and the limit may be the helper's other parameter (withinLimit(size, limit), called with a constant)
		_, okc := core.ConstInt(bo.Y)
		if !okc && inHelper(bo.X) && inHelper(bo.Y) {
			okc = true
		}
		if okc && (vs(bo.X) || inHelper(bo.X)) {
			switch bo.Op {
			case token.GTR, token.GEQ:
				return true, true
			case token.LSS, token.LEQ:
				return false, true
			}
		}
		return false, false
	})
	if len(upper) > 0 && core.OnlyViaEdges(fn, at, upper) {
		return true
	}
	return false
}

// decodeSide: functions that take or own a reader (decoders).
func decodeSide(p *core.Program) []*ssa.Function {
	rf := readerFuncs(p)
	var out []*ssa.Function
	for _, fn := range p.Funcs() {
		if pkgOf(fn) == nil || isServerSide(fn) {
			continue
		}
		take := rf[fn]
		sig := fn.Signature
		if sig.Recv() != nil && isReaderType(sig.Recv().Type()) {
			take = true
		}
		for i := 0; i < sig.Params().Len(); i++ {
			if isReaderType(sig.Params().At(i).Type()) {
				take = true
			}
		}
		if take {
			out = append(out, fn)
		}
	}
	return out
}

func runC06(c *Ctx) {
	for _, cfg := range c.Configs() {
		p := c.Prog(cfg)
		if p == nil {
			continue
		}
		ruleAlloc(c, p)
		ruleRowsContract(c, p)
		ruleRowsUsed(c, p, "C06.rowsused")
		ruleLastIndex(c, p, "C06.lastindex")
		ruleValidationLoops(c, p, "C06.validate")
		ruleConfigParsed(c, p, "C06.config")
		ruleConfiguredFlag(c, p, "C06.configured")
		ruleFieldBeforeUse(c, p, "C06.field-before-use")
		ruleResetComplete(c, p, "C06.reset-clears")
		ruleInferNonNil(c, p, "C06.infer-nonnil")
		ruleChainComplete(c, p, "C06.chain")
		ruleStringIndexGuard(c, p, "C06.index-guard")
		ruleStrLenSource(c, p, "C06.strlen-source")
		ruleInferCache(c, p, "C06.infer-cache")
		ruleInferIndex(c, p, "C06.infer-index")
		ruleSumOverflow(c, p, "C06.sum-overflow")
		ruleZstdCap(c, p, "C06.zstd-cap")
		ruleDataIndex(c, p, "C06.data-index")
		ruleCountCases(c, p, "C06.count")
		ruleResliceUp(c, p, "C06.reslice-up")
		ruleFrameIndex(c, p, "C06.frame-index")
		ruleInferNoSharedState(c, p, "C06.shared-state")
		ruleWireSlice(c, p, "C06.wire-slice")
		c.R.Rule("C06.errors", "E6 (as C07.errors): every read error on the decode side reaches only failure exits - a swallowed error turns hostile input into a silently wrong (internally inconsistent) result")
		nE := runErrDisc(c, p, p.Funcs(), errDiscOpts{Rule: "C06.errors", Class: readerClass(p), Exempt: isDoReceiverPacket})
		c.R.Floor("C06.errors", cfg.Name, nE, 190)
	}
	p := c.Prog(core.CfgDefault)
	if p == nil {
		return
	}
	ruleOffsets(c, p)
	ruleDecodeLoops(c, p)
	rulePanics(c, p)
	ruleSliceOrder(c, p, "C06.slices")
	ruleFrameBounds(c, p, "C06.frame")
	ruleCaps(c, p)
	ruleResetBefore(c, p, "C06.rowcount")
	c.R.Assumptions = append(c.R.Assumptions,
		"allocations linear in the block's row count times a constant element size are by design (bounded by the library's row cap)",
		"decided: no allocation sized by an unchecked wire value, the row-count contract at every codec call site, validation of offsets and keys before row accessors can index with them, unbounded decode loops consume input, explicit panics reachable from decoders, the block caps; not decided: absence of every implicit panic (nil, bounds, conversion) for every byte string")
}

// ---- C06.alloc
func ruleAlloc(c *Ctx, p *core.Program) {
	rule := "C06.alloc"
	c.R.Rule(rule, "E5 (allocation sinks): in every decode-side function (takes or owns a reader, or transitively reads), each allocation with a non-constant size - make, append(x, make(n)...), Buffer.Ensure(n) - is sized by a bounded value: a constant, a length of existing memory, the codec's row-count parameter (contract, rule C06.rows), a value validated by checkRows or against a constant limit on every path to the allocation, or a linear combination of such values with constant factors; parameters are followed to all their static call sites")
	cfg := p.Cfg.Name
	bc := newBoundCtx(p)
	n := 0
	// unexported helpers whose allocation is sized by one of their parameters are accounted at
	// their call sites (as the caller's own allocation), so that moving an allocation into a
	// helper does not change which construct an obligation (or a known finding) is keyed by
	sinkSize := func(in ssa.Instruction) ssa.Value {
		switch x := in.(type) {
		case *ssa.MakeSlice:
			if _, ok := core.ConstInt(x.Len); ok {
				return nil
			}
			return x.Len
		case *ssa.Call:
			if f := core.CalleeFunc(x); f != nil && core.IsMethod(f, core.PkgProto, "Buffer", "Ensure") {
				return x.Call.Args[1]
			}
		}
		return nil
	}
	helperParam := map[*ssa.Function]int{}
	helperKind := map[*ssa.Function]string{}
	sinkKind := func(in ssa.Instruction) string {
		switch x := in.(type) {
		case *ssa.MakeSlice:
			if st, ok := x.Type().Underlying().(*types.Slice); ok {
				return types.TypeString(st.Elem(), func(*types.Package) string { return "" })
			}
		case *ssa.Call:
			return "Ensure"
		}
		return "?"
	}
	for _, fn := range decodeSide(p) {
		if fn.Object() == nil || fn.Object().Exported() || len(fn.Params) == 0 {
			continue
		}
		for _, b := range fn.Blocks {
			for _, in := range b.Instrs {
				sz := sinkSize(in)
				if sz == nil {
					continue
				}
				for i, pr := range fn.Params {
					if _, isInt := pr.Type().Underlying().(*types.Basic); isInt && stripConv(sz) == ssa.Value(pr) {
						helperParam[fn] = i
						helperKind[fn] = sinkKind(in)
					}
				}
			}
		}
	}
	for _, fn := range decodeSide(p) {
		kinds := map[string]int{}
		for _, b := range fn.Blocks {
			for _, in := range b.Instrs {
				var size ssa.Value
				what := ""
				if _, isHelper := helperParam[fn]; isHelper {
					if sz := sinkSize(in); sz != nil {
						if pr, ok := stripConv(sz).(*ssa.Parameter); ok && pr == fn.Params[helperParam[fn]] {
							continue // accounted at the call sites
						}
					}
				}
				if cl, ok := in.(*ssa.Call); ok {
					if h := core.StaticFn(cl); h != nil {
						if pi, isHelper := helperParam[h]; isHelper && pi < len(cl.Call.Args) {
							n++
							// keyed like the sink inside the helper, so that moving the allocation into a helper keeps its name
							kinds[helperKind[h]]++
							key := sprintf("%s/alloc[%s]#%d", core.FuncName(fn), helperKind[h], kinds[helperKind[h]])
							size = cl.Call.Args[pi]
							if bc.bounded(size, in, 0) {
								c.R.Ok(rule, key, cfg, p.Pos(in.Pos()), "allocation in "+h.Name()+" sized by a bounded value")
							} else {
								why := bc.why[size]
								if why == "" {
									why = "not traceable to a checked value"
								}
								c.R.Bad(rule, key, cfg, p.Pos(in.Pos()), "the allocation in "+h.Name()+" is sized by a value that is "+why+" without a cap: a hostile length field makes the process request that much memory (abort) before any data is read")
							}
							continue
						}
					}
				}
				kind := ""
				switch x := in.(type) {
				case *ssa.MakeSlice:
					if _, ok := core.ConstInt(x.Len); ok {
						continue
					}
					size, what = x.Len, "make"
					kind = "?"
					if st, ok := x.Type().Underlying().(*types.Slice); ok {
						kind = types.TypeString(st.Elem(), func(*types.Package) string { return "" })
					}
				case *ssa.MakeMap:
					if x.Reserve == nil {
						continue
					}
					size, what, kind = x.Reserve, "make(map)", "map"
				case *ssa.Call:
					f := core.CalleeFunc(x)
					if f != nil && core.IsMethod(f, core.PkgProto, "Buffer", "Ensure") {
						size, what, kind = x.Call.Args[1], "Buffer.Ensure", "Ensure"
					} else {
						continue
					}
				default:
					continue
				}
				n++
				// keyed by what is allocated (element type) and its ordinal among the like in this function, so that
				// moving an unrelated allocation out of the function does not rename the others
				kinds[kind]++
				key := sprintf("%s/alloc[%s]#%d", core.FuncName(fn), kind, kinds[kind])
				if bc.bounded(size, in, 0) {
					c.R.Ok(rule, key, cfg, p.Pos(in.Pos()), what+" sized by a bounded value")
				} else {
					why := bc.why[size]
					if why == "" {
						why = "not traceable to a checked value"
					}
					c.R.Bad(rule, key, cfg, p.Pos(in.Pos()), what+" is sized by a value that is "+why+" without a cap: a hostile length field makes the process request that much memory (abort) before any data is read")
				}
			}
		}
	}
	c.R.Count("allocation sinks on the decode side["+cfg+"]", n)
	c.R.Floor(rule, cfg, n, 8)
}

// ---- C06.rows
func ruleRowsContract(c *Ctx, p *core.Program) {
	rule := "C06.rows"
	c.R.Rule(rule, "contract of the codec interface: at every call site of DecodeColumn(r, n) the row count n is itself bounded (the caller's own rows parameter, Block.Rows after checkRows, or a wire-derived count validated by checkRows on every path to the call)")
	cfg := p.Cfg.Name
	bc := newBoundCtx(p)
	n := 0
	for _, fn := range p.Funcs() {
		if pkgOf(fn) == nil {
			continue
		}
		for _, call := range core.FindCalls(fn, isColMethod("DecodeColumn")) {
			args := call.Common().Args
			rows := args[len(args)-1]
			n++
			key := core.CallKey(fn, call)
			if bc.bounded(rows, call.(ssa.Instruction), 0) {
				c.R.Ok(rule, key, cfg, p.Pos(call.Pos()), "row count bounded")
			} else {
				c.R.Bad(rule, key, cfg, p.Pos(call.Pos()), "the row count handed to the inner decoder is "+orStr(bc.why[rows], "unchecked")+": element counts from the wire must pass checkRows first")
			}
		}
	}
	c.R.Count("DecodeColumn call sites["+cfg+"]", n)
	c.R.Floor(rule, cfg, n, 18)
}

func orStr(a, b string) string {
	if a != "" {
		return a
	}
	return b
}

// ---- C06.index
func ruleOffsets(c *Ctx, p *core.Program) {
	rule := "C06.index"
	c.R.Rule(rule, "wire-derived positions are validated before row accessors can index with them: the decoder of every column with an Offsets field (Array, Map) contains, on its success path, a loop over the decoded offsets that compares each with its predecessor and fails on a decrease (the last offset sizes the data and is checked by checkRows, so monotone offsets are all in range); LowCardinality looks a key up in the dictionary only behind both an upper-bound test against the dictionary size and a `< 0` test")
	cfg := p.Cfg.Name
	n := 0
	for _, ct := range columnTypes(p) {
		st, ok := ct.Underlying().(*types.Struct)
		if !ok {
			continue
		}
		hasOff := false
		for i := 0; i < st.NumFields(); i++ {
			if st.Field(i).Name() == "Offsets" {
				hasOff = true
			}
		}
		if !hasOff {
			continue
		}
		dec := methodOf(p, ct, "DecodeColumn")
		if dec == nil || dec.Blocks == nil {
			continue
		}
		n++
		key := "offsets/" + ct.Obj().Name()
		// a comparison between two elements of Offsets (or element vs running previous) inside a loop, whose failing edge returns an error
		found := false
		for fn := range core.StaticReach(dec, 1) {
			for _, b := range fn.Blocks {
				ifi, ok := b.Instrs[len(b.Instrs)-1].(*ssa.If)
				if !ok || !core.InLoop(ifi) {
					continue
				}
				bo, ok := ifi.Cond.(*ssa.BinOp)
				if !ok || (bo.Op != token.LSS && bo.Op != token.GTR && bo.Op != token.LEQ && bo.Op != token.GEQ) {
					continue
				}
				fromOff := func(v ssa.Value) bool {
					return core.DependsOn(v, func(x ssa.Value) bool {
						switch y := x.(type) {
						case *ssa.FieldAddr:
							return fieldNameOnly(y.X.Type(), y.Field) == "Offsets"
						case *ssa.Parameter:
							if core.IsNamed(y.Type(), core.PkgProto, "ColUInt64") {
								return true
							}
							if sl, ok := y.Type().Underlying().(*types.Slice); ok {
								if bt, ok := sl.Elem().Underlying().(*types.Basic); ok && bt.Kind() == types.Uint64 {
									return true
								}
							}
						}
						return false
					}, false)
				}
				if !fromOff(bo.X) || !fromOff(bo.Y) {
					continue
				}
				// the two operands are neighbours: the current element against a
				// loop-carried copy of the previous one, or elements i and i±1
				neighbours := func(a, b ssa.Value) bool {
					if ph, ok := a.(*ssa.Phi); ok && core.InLoop(ph) {
						for _, e := range ph.Edges {
							if e == b {
								return true
							}
						}
					}
					idx := func(v ssa.Value) ssa.Value {
						if u, ok := v.(*ssa.UnOp); ok && u.Op == token.MUL {
							if ia, ok := u.X.(*ssa.IndexAddr); ok {
								return ia.Index
							}
						}
						if ix, ok := v.(*ssa.Index); ok {
							return ix.Index
						}
						return nil
					}
					ia, ib := idx(a), idx(b)
					if ia != nil && ib != nil {
						if d, ok := ia.(*ssa.BinOp); ok && (d.Op == token.ADD || d.Op == token.SUB) && d.X == ib {
							if k, okc := core.ConstInt(d.Y); okc && k == 1 {
								return true
							}
						}
					}
					return false
				}
				if !neighbours(bo.X, bo.Y) && !neighbours(bo.Y, bo.X) {
					continue
				}
				// a "finder" helper without error result: the decrease edge returns a marker, the
				// caller fails on it
				if _, hasErr := core.ReturnsError(fn.Signature); !hasErr && fn != dec && fn.Signature.Results().Len() >= 1 {
					if finderFails(fn, ifi, dec) {
						found = true
					}
					continue
				}
				// one edge must lead only to failure
				for si := 0; si < 2; si++ {
					start := core.Point{B: b.Succs[si], I: -1}
					ok := len(core.ReachAvoiding(start, func(x ssa.Instruction) bool {
						r, isRet := x.(*ssa.Return)
						if isRet {
							return defaultSuccess(fn, r)
						}
						return x == ssa.Instruction(ifi)
					}, nil, nil)) == 0
					if ok {
						found = true
					}
				}
			}
		}
		if found {
			c.R.Ok(rule, key, cfg, p.Pos(dec.Pos()), "offsets are checked to be non-decreasing before the column is accepted")
		} else {
			c.R.Bad(rule, key, cfg, p.Pos(dec.Pos()), "only the last offset is looked at: a block with non-monotonic offsets decodes successfully and Row(i) / RowAppend then slices with start > end or indexes past the data (panic after a successful decode)")
		}
	}
	if n < 2 {
		c.R.Unk(rule, "offsets/population", cfg, "", sprintf("%d offset-carrying columns found", n))
	}
	// LowCardinality keys
	lc := p.Method(core.PkgProto, "ColLowCardinality", "DecodeColumn")
	if !c.must(p, "ColLowCardinality.DecodeColumn", lc != nil) {
		return
	}
	rowCalls := core.FindCalls(lc, func(f *types.Func) bool { return f.Name() == "Row" })
	if len(rowCalls) == 0 {
		c.R.Unk(rule, "keys/ColLowCardinality", cfg, p.Pos(lc.Pos()), "dictionary lookup not found")
		return
	}
	for _, rc := range rowCalls {
		idx := rc.Common().Args[len(rc.Common().Args)-1]
		derived := func(v ssa.Value) bool {
			return v == idx || core.DependsOn(v, func(x ssa.Value) bool { return x == idx }, false)
		}
		upper := core.CondEdges(lc, false, func(cond ssa.Value) (bool, bool) {
			bo, ok := cond.(*ssa.BinOp)
			if !ok || !derived(bo.X) {
				return false, false
			}
			if _, isConst := core.ConstInt(bo.Y); isConst {
				return false, false
			}
			switch bo.Op {
			case token.GEQ, token.GTR:
				return true, true
			case token.LSS, token.LEQ:
				return false, true
			}
			return false, false
		})
		lower := core.CondEdges(lc, false, func(cond ssa.Value) (bool, bool) {
			bo, ok := cond.(*ssa.BinOp)
			if !ok || !derived(bo.X) {
				return false, false
			}
			if k, isConst := core.ConstInt(bo.Y); !isConst || k != 0 {
				return false, false
			}
			switch bo.Op {
			case token.LSS:
				return true, true
			case token.GEQ:
				return false, true
			}
			return false, false
		})
		in := rc.(ssa.Instruction)
		key := core.CallKey(lc, rc)
		switch {
		case len(upper) == 0 || !core.OnlyViaEdges(lc, in, upper):
			c.R.Bad(rule, key, cfg, p.Pos(in.Pos()), "a key is looked up in the dictionary without an upper-bound check against the dictionary size")
		case len(lower) == 0 || !core.OnlyViaEdges(lc, in, lower):
			c.R.Bad(rule, key, cfg, p.Pos(in.Pos()), "a key is looked up in the dictionary without a `< 0` check: 64-bit keys with the top bit set become negative ints and index out of range (panic)")
		default:
			c.R.Ok(rule, key, cfg, p.Pos(in.Pos()), "0 <= key < dictionary size on every path to the lookup")
		}
	}
}

// ---- C06.loops
func ruleDecodeLoops(c *Ctx, p *core.Program) {
	rule := "C06.loops"
	c.R.Rule(rule, "every loop on the decode side that has no counted bound (no comparison of an induction variable in its header) reads from the stream on every cycle - so it consumes input and ends on the read error (whose propagation is C07) - or fails")
	cfg := p.Cfg.Name
	rd := readerClass(p)
	n := 0
	for _, fn := range decodeSide(p) {
		for _, h := range fn.Blocks {
			// loop header: has a predecessor dominated by itself
			isHdr := false
			for _, pr := range h.Preds {
				if pr == h || h.Dominates(pr) {
					isHdr = true
				}
			}
			if !isHdr {
				continue
			}
			// counted: the header's exit test compares (a value derived from) a phi of this header
			counted := false
			for _, in := range h.Instrs {
				switch x := in.(type) {
				case *ssa.If:
					if bo, ok := x.Cond.(*ssa.BinOp); ok && (bo.Op == token.LSS || bo.Op == token.LEQ || bo.Op == token.GTR || bo.Op == token.GEQ) {
						if core.DependsOn(bo, func(v ssa.Value) bool {
							ph, ok := v.(*ssa.Phi)
							return ok && ph.Block() == h
						}, false) {
							counted = true
						}
					}
					if e, ok := x.Cond.(*ssa.Extract); ok {
						if _, isNext := e.Tuple.(*ssa.Next); isNext {
							counted = true
						}
					}
				}
			}
			if counted {
				continue
			}
			n++
			key := sprintf("%s/loop@block%d", core.FuncName(fn), h.Index)
			first := h.Instrs[0]
			w := core.ReachAvoiding(core.Point{B: h, I: 0}, func(x ssa.Instruction) bool { return x == first }, func(x ssa.Instruction) bool {
				cl, ok := x.(ssa.CallInstruction)
				return ok && rd(fn, cl)
			}, nil)
			if len(w) > 0 {
				c.R.Bad(rule, key, cfg, p.Pos(first.Pos()), "an unbounded decode loop can go round without reading from the stream: on some input it never terminates", p.TrailString(w[0])...)
			} else {
				c.R.Ok(rule, key, cfg, p.Pos(first.Pos()), "every cycle reads from the stream")
			}
		}
	}
	c.R.Count("unbounded decode loops", n)
	if n < 3 {
		c.R.Unk(rule, "population", cfg, "", sprintf("%d unbounded decode loops found, expected at least block-info fields, settings, exception chain", n))
	}
}

// ---- C06.panic
func rulePanics(c *Ctx, p *core.Program) {
	rule := "C06.panic"
	c.R.Rule(rule, "explicit panics reachable from a decode entry point (static calls plus class-hierarchy resolution of interface calls on library methods, plus the reflective wrappers) are enumerated; each must be guarded by conditions over the target's configuration and the caller's arguments only (a precondition on the caller, independent of the bytes); a panic whose guard depends on a value read from the wire, or an unguarded one, is a violation; the key width that ColLowCardinalityRaw.Keys switches on is stored only after validation")
	cfg := p.Cfg.Name
	// library methods by name (CHA)
	byName := map[string][]*ssa.Function{}
	for _, fn := range p.Funcs() {
		if fn.Signature.Recv() != nil && pkgOf(fn) != nil {
			byName[fn.Name()] = append(byName[fn.Name()], fn)
		}
	}
	reach := map[*ssa.Function]bool{}
	var visit func(fn *ssa.Function, d int)
	visit = func(fn *ssa.Function, d int) {
		if fn == nil || reach[fn] || fn.Blocks == nil || d > 12 {
			return
		}
		reach[fn] = true
		for _, b := range fn.Blocks {
			for _, in := range b.Instrs {
				switch x := in.(type) {
				case ssa.CallInstruction:
					cc := x.Common()
					if cc.IsInvoke() {
						if cc.Method.Pkg() != nil && core.IsLib(cc.Method.Pkg()) {
							for _, m := range byName[cc.Method.Name()] {
								visit(m, d+1)
							}
						}
					} else if sf := core.StaticFn(x); sf != nil {
						visit(sf, d+1)
					}
				case *ssa.MakeClosure:
					if cf, ok := x.Fn.(*ssa.Function); ok {
						visit(cf, d+1)
					}
				}
			}
		}
	}
	for _, fn := range decodeSide(p) {
		if pkgOf(fn).Path() == core.PkgCh {
			continue // client plumbing: panics there are checked through the proto entry points it calls
		}
		visit(fn, 0)
	}
	// reflective wrappers of ColAuto.Infer
	for _, nm := range []string{"Array", "Nullable", "LowCardinality"} {
		for _, m := range byName[nm] {
			visit(m, 0)
		}
	}
	// A reachable explicit panic is acceptable when every condition that guards it depends only on the
	// target's configuration / the caller's arguments (receiver fields, parameters, constants, lengths):
	// a precondition on the caller, independent of the bytes. It is a violation when a guard depends on
	// a value read from the wire or on an element of a decoded column, or when it is unguarded.
	var found []string
	nP := 0
	for fn := range reach {
		if pkgOf(fn) == nil || !core.IsLib(pkgOf(fn)) {
			continue
		}
		for _, b := range fn.Blocks {
			for _, in := range b.Instrs {
				if _, ok := in.(*ssa.Panic); !ok {
					continue
				}
				nP++
				key := core.FuncName(fn)
				found = append(found, key)
				wire, guarded := false, false
				for _, gb := range fn.Blocks {
					ifi, ok := gb.Instrs[len(gb.Instrs)-1].(*ssa.If)
					if !ok || !(gb.Dominates(b)) {
						continue
					}
					guarded = true
					if core.DependsOn(ifi.Cond, func(v ssa.Value) bool {
						if isWireRead(v) {
							return true
						}
						if e, ok := v.(*ssa.Extract); ok && isWireRead(e.Tuple) {
							return true
						}
						return false
					}, true) {
						wire = true
					}
				}
				switch {
				case wire:
					c.R.Bad(rule, "panic/"+key, cfg, p.Pos(in.Pos()), "an explicit panic reachable from a decode entry point is guarded by a value read from the wire: hostile input crashes the process")
				case !guarded:
					c.R.Bad(rule, "panic/"+key, cfg, p.Pos(in.Pos()), "an unconditional explicit panic is reachable from a decode entry point")
				default:
					c.R.Ok(rule, "panic/"+key, cfg, p.Pos(in.Pos()), "guarded by configuration / arguments only (precondition on the caller, independent of the bytes)")
				}
			}
		}
	}
	sort.Strings(found)
	c.R.Count("functions reachable from decode entry points (CHA)", len(reach))
	c.R.Count("explicit panics reachable", nP)
	// the validation that protects ColLowCardinalityRaw.Keys
	raw := p.Method(core.PkgProto, "ColLowCardinalityRaw", "DecodeColumn")
	if raw != nil {
		guarded := false
		for _, b := range raw.Blocks {
			for _, in := range b.Instrs {
				s, ok := in.(*ssa.Store)
				if !ok {
					continue
				}
				fa, ok := s.Addr.(*ssa.FieldAddr)
				if !ok || fieldNameOnly(fa.X.Type(), fa.Field) != "Key" {
					continue
				}
				edges := core.CondEdges(raw, true, func(cond ssa.Value) (bool, bool) {
					_, ok := core.CallTo(cond, func(f *types.Func) bool { return f.Name() == "IsACardinalityKey" })
					return true, ok
				})
				if len(edges) > 0 && core.OnlyViaEdges(raw, s, edges) {
					guarded = true
				}
				// the width may come from a parsing helper that validates it before returning successfully
				if ex, ok := stripConv(s.Val).(*ssa.Extract); ok && !guarded {
					if hc, ok := ex.Tuple.(*ssa.Call); ok {
						if g := core.StaticFn(hc); g != nil && g.Blocks != nil && pkgOf(g) != nil && pkgOf(g).Path() == core.PkgProto {
							ge := core.CondEdges(g, true, func(cond ssa.Value) (bool, bool) {
								_, ok := core.CallTo(cond, func(f *types.Func) bool { return f.Name() == "IsACardinalityKey" })
								return true, ok
							})
							all, any := true, false
							for _, gb := range g.Blocks {
								ret, ok := gb.Instrs[len(gb.Instrs)-1].(*ssa.Return)
								if !ok || !defaultSuccess(g, ret) {
									continue
								}
								any = true
								if len(ge) == 0 || !core.OnlyViaEdges(g, ret, ge) {
									all = false
								}
							}
							if any && all {
								guarded = true
							}
						}
					}
				}
			}
		}
		if guarded {
			c.R.Ok(rule, "guard/ColLowCardinalityRaw.Key", cfg, p.Pos(raw.Pos()), "key width stored only after IsACardinalityKey()")
		} else {
			c.R.Bad(rule, "guard/ColLowCardinalityRaw.Key", cfg, p.Pos(raw.Pos()), "the wire-derived key width is stored without validation: Keys() panics on it")
		}
	}
}

// ---- C06.caps
func ruleCaps(c *Ctx, p *core.Program) {
	rule := "C06.caps"
	c.R.Rule(rule, "DecodeRawBlock validates the column count against maxColumnsInBlock (and >= 0) and the row count with checkRows before anything is sized by them; checkRows rejects negative values and values above maxRowsInBLock")
	cfg := p.Cfg.Name
	rb := p.Method(core.PkgProto, "Block", "DecodeRawBlock")
	cr := p.Func(core.PkgProto, "checkRows")
	if !c.must(p, "Block.DecodeRawBlock / checkRows", rb != nil && cr != nil) {
		return
	}
	bc := newBoundCtx(p)
	okAll := true
	for _, b := range rb.Blocks {
		for _, in := range b.Instrs {
			s, ok := in.(*ssa.Store)
			if !ok {
				continue
			}
			fa, ok := s.Addr.(*ssa.FieldAddr)
			if !ok || !core.IsNamed(fa.X.Type(), core.PkgProto, "Block") {
				continue
			}
			f := fieldNameOnly(fa.X.Type(), fa.Field)
			if f != "Rows" && f != "Columns" {
				continue
			}
			if bc.checkedOnPath(s.Val, s) {
				c.R.Ok(rule, "Block."+f, cfg, p.Pos(s.Pos()), "stored only after validation")
			} else {
				okAll = false
				c.R.Bad(rule, "Block."+f, cfg, p.Pos(s.Pos()), "Block."+f+" is taken from the wire without a cap")
			}
		}
	}
	// checkRows has both tests
	lo, hi := false, false
	for _, b := range cr.Blocks {
		if ifi, ok := b.Instrs[len(b.Instrs)-1].(*ssa.If); ok {
			if bo, ok := ifi.Cond.(*ssa.BinOp); ok {
				if k, okc := core.ConstInt(bo.Y); okc {
					if bo.Op == token.LSS && k == 0 {
						lo = true
					}
					if bo.Op == token.GTR && k > 0 {
						hi = true
					}
				}
			}
		}
	}
	if lo && hi && okAll {
		c.R.Ok(rule, "checkRows", cfg, p.Pos(cr.Pos()), "0 <= n <= maxRowsInBLock")
	} else if !(lo && hi) {
		c.R.Bad(rule, "checkRows", cfg, p.Pos(cr.Pos()), "checkRows no longer rejects negative or oversized counts")
	}
}

// isRecvConfig: v is a load of a field of the method's receiver (column configuration).
func isRecvConfig(v ssa.Value) bool {
	for {
		switch x := v.(type) {
		case *ssa.Convert:
			v = x.X
			continue
		case *ssa.UnOp:
			if x.Op == token.MUL {
				if fa, ok := x.X.(*ssa.FieldAddr); ok {
					if pr, ok := fa.X.(*ssa.Parameter); ok && pr.Parent().Signature.Recv() != nil && pr == pr.Parent().Params[0] {
						return true
					}
				}
			}
		case *ssa.Field:
			if pr, ok := x.X.(*ssa.Parameter); ok && pr.Parent().Signature.Recv() != nil && pr == pr.Parent().Params[0] {
				return true
			}
		}
		return false
	}
}

// ---- C06.slices
// ruleSliceOrder: string/byte slices whose two bounds come from two different searches.
func ruleSliceOrder(c *Ctx, p *core.Program, rule string) {
	c.R.Rule(rule, "in package proto, every slice expression s[a:b] whose bounds derive from two different search results (strings/bytes Index*, LastIndex*) is reachable only through a comparison that orders the two results: `Foo)(`-shaped input from the wire (a column type string) otherwise slices with a > b and panics")
	cfg := p.Cfg.Name
	isSearch := func(v ssa.Value) *ssa.Call {
		cl, ok := v.(*ssa.Call)
		if !ok {
			return nil
		}
		f := core.CalleeFunc(cl)
		if f == nil || f.Pkg() == nil || (f.Pkg().Path() != "strings" && f.Pkg().Path() != "bytes") {
			return nil
		}
		if strings.HasPrefix(f.Name(), "Index") || strings.HasPrefix(f.Name(), "LastIndex") {
			return cl
		}
		return nil
	}
	// helperResult: v is result #i of a static call of a proto helper
	helperResult := func(v ssa.Value) (*ssa.Function, *ssa.Call, int) {
		ex, ok := v.(*ssa.Extract)
		if !ok {
			return nil, nil, 0
		}
		cl, ok := ex.Tuple.(*ssa.Call)
		if !ok {
			return nil, nil, 0
		}
		g := core.StaticFn(cl)
		if g == nil || g.Blocks == nil || pkgOf(g) == nil || pkgOf(g).Path() != core.PkgProto {
			return nil, nil, 0
		}
		return g, cl, ex.Index
	}
	var sourcesD func(v ssa.Value, d int) map[*ssa.Call]bool
	sourcesD = func(v ssa.Value, d int) map[*ssa.Call]bool {
		out := map[*ssa.Call]bool{}
		core.DependsOn(v, func(x ssa.Value) bool {
			if cl := isSearch(x); cl != nil {
				out[cl] = true
			}
			if g, _, i := helperResult(x); g != nil && d < 2 {
				for _, b := range g.Blocks {
					if ret, ok := b.Instrs[len(b.Instrs)-1].(*ssa.Return); ok && i < len(ret.Results) {
						for k := range sourcesD(ret.Results[i], d+1) {
							out[k] = true
						}
					}
				}
			}
			return false
		}, false)
		return out
	}
	sources := func(v ssa.Value) map[*ssa.Call]bool { return sourcesD(v, 0) }
	n := 0
	for _, fn := range p.Funcs() {
		if pkgOf(fn) == nil || pkgOf(fn).Path() != core.PkgProto || fn.Blocks == nil {
			continue
		}
		k := 0
		for _, b := range fn.Blocks {
			for _, in := range b.Instrs {
				sl, ok := in.(*ssa.Slice)
				if !ok || sl.Low == nil || sl.High == nil {
					continue
				}
				lo, hi := sources(sl.Low), sources(sl.High)
				if len(lo) == 0 || len(hi) == 0 {
					continue
				}
				same := true
				for x := range lo {
					if !hi[x] {
						same = false
					}
				}
				for x := range hi {
					if !lo[x] {
						same = false
					}
				}
				if same {
					continue
				}
				n++
				k++
				key := sprintf("%s/slice#%d", core.FuncName(fn), k)
				from := func(v ssa.Value, set map[*ssa.Call]bool) bool {
					s := sources(v)
					if len(s) == 0 {
						return false
					}
					for x := range s {
						if !set[x] {
							return false
						}
					}
					return true
				}
				// edges of comparisons between the two results (either polarity orders them on one side)
				// orders: which truth value of the comparison implies lo <= hi (0: true, 1: false, -1: neither)
				orders := func(cond ssa.Value) int {
					bo, ok := cond.(*ssa.BinOp)
					if !ok {
						return -1
					}
					var loLeft bool
					switch {
					case from(bo.X, lo) && from(bo.Y, hi):
						loLeft = true
					case from(bo.X, hi) && from(bo.Y, lo):
						loLeft = false
					default:
						return -1
					}
					switch bo.Op {
					case token.LSS, token.LEQ: // X < Y true
						if loLeft {
							return 0
						}
						return 1
					case token.GTR, token.GEQ:
						if loLeft {
							return 1
						}
						return 0
					}
					return -1
				}
				var orderedIn func(f *ssa.Function, d int) []core.Edge
				orderedIn = func(f *ssa.Function, d int) []core.Edge {
					var ordered []core.Edge
					for _, h := range f.Blocks {
						ifi, ok := h.Instrs[len(h.Instrs)-1].(*ssa.If)
						if !ok {
							continue
						}
						if succ := orders(ifi.Cond); succ >= 0 {
							ordered = append(ordered, core.Edge{B: h, Succ: succ})
						}
					}
					// a validity flag returned by the helper that produced the bounds:
					// `open, closing, ok := c.parens(); if !ok {...}`
					for _, h := range f.Blocks {
						ifi, ok := h.Instrs[len(h.Instrs)-1].(*ssa.If)
						if !ok || d > 0 {
							continue
						}
						cond, pol := core.StripNot(ifi.Cond)
						g, _, j := helperResult(cond)
						if g == nil {
							continue
						}
						og := orderedIn(g, d+1)
						all, any := true, false
						for _, gb := range g.Blocks {
							ret, ok := gb.Instrs[len(gb.Instrs)-1].(*ssa.Return)
							if !ok || j >= len(ret.Results) {
								continue
							}
							if k, isC := ret.Results[j].(*ssa.Const); isC && k.Value != nil && k.Value.String() == "false" {
								continue
							}
							any = true
							// the flag computed as a conjunction `a && b && lo <= hi`: a phi whose incoming values
							// are the constant false or a comparison that orders the bounds when true
							flagOrders := func(v ssa.Value) bool {
								vals := []ssa.Value{v}
								if ph, isPhi := v.(*ssa.Phi); isPhi {
									vals = ph.Edges
								}
								sawCmp := false
								for _, e := range vals {
									if k, isC := e.(*ssa.Const); isC && k.Value != nil && k.Value.String() == "false" {
										continue
									}
									if orders(e) != 0 {
										return false
									}
									sawCmp = true
								}
								return sawCmp
							}
							if flagOrders(ret.Results[j]) {
								continue
							}
							if len(og) == 0 || !core.OnlyViaEdges(g, ret, og) {
								all = false
							}
						}
						if any && all {
							succ := 0
							if !pol {
								succ = 1
							}
							ordered = append(ordered, core.Edge{B: h, Succ: succ})
						}
					}
					return ordered
				}
				ordered := orderedIn(fn, 0)
				if len(ordered) > 0 && core.OnlyViaEdges(fn, sl, ordered) {
					c.R.Ok(rule, key, cfg, p.Pos(sl.Pos()), "bounds ordered by a comparison on every path")
				} else {
					c.R.Bad(rule, key, cfg, p.Pos(sl.Pos()), "slice bounds come from two independent searches and no comparison orders them on every path to the slice: input where the second delimiter precedes the first panics (slice bounds out of range)")
				}
			}
		}
	}
	c.R.Floor(rule, cfg, n, 1)
}

// ---- C06.rowsused
// ruleRowsUsed: a column decoder makes use of the row count it is given.
func ruleRowsUsed(c *Ctx, p *core.Program, rule string) {
	c.R.Rule(rule, "every DecodeColumn(r, rows) of a column type lets `rows` determine something: it (or a value computed from it) is an argument of a call (a nested decoder, a read, an allocation helper), the size of a make, a slice bound, or is compared with a non-constant value; a decoder that only compares it with constants (the `rows == 0` shortcut) takes its row count from the wire alone, so a block whose inner count field differs from the block's row count decodes successfully with Rows() != block rows")
	cfg := p.Cfg.Name
	n := 0
	for _, ct := range columnTypes(p) {
		fn := methodOf(p, ct, "DecodeColumn")
		if fn == nil || fn.Blocks == nil || len(fn.Params) < 3 {
			continue
		}
		rows := fn.Params[len(fn.Params)-1]
		n++
		key := "column/" + ct.Obj().Name()
		seen := map[ssa.Value]bool{}
		used := ""
		var visit func(v ssa.Value, d int)
		visit = func(v ssa.Value, d int) {
			if seen[v] || d > 8 || used != "" {
				return
			}
			seen[v] = true
			refs := v.Referrers()
			if refs == nil {
				return
			}
			for _, r := range *refs {
				switch x := r.(type) {
				case *ssa.Convert:
					visit(x, d+1)
				case *ssa.ChangeType:
					visit(x, d+1)
				case *ssa.Phi:
					visit(x, d+1)
				case *ssa.BinOp:
					switch x.Op {
					case token.EQL, token.NEQ, token.LSS, token.LEQ, token.GTR, token.GEQ:
						other := x.X
						if other == v {
							other = x.Y
						}
						if _, isConst := other.(*ssa.Const); !isConst {
							used = "compared with a non-constant value"
						}
					default:
						visit(x, d+1)
					}
				case *ssa.MakeSlice:
					used = "size of an allocation"
				case *ssa.Slice:
					used = "slice bound"
				case *ssa.Store:
					if x.Val == v {
						// spilled into a cell (captured by a closure or named result): follow the loads
						if al, ok := x.Addr.(*ssa.Alloc); ok {
							for _, lr := range *al.Referrers() {
								if u, ok := lr.(*ssa.UnOp); ok && u.Op == token.MUL {
									visit(u, d+1)
								}
							}
						} else {
							used = "stored"
						}
					}
				case ssa.CallInstruction:
					if bi, ok := x.Common().Value.(*ssa.Builtin); ok && bi.Name() != "make" {
						continue
					}
					used = "argument of " + core.CallKey(fn, x)
				}
			}
		}
		visit(rows, 0)
		if used != "" {
			c.R.Ok(rule, key, cfg, p.Pos(fn.Pos()), "rows: "+used)
		} else {
			c.R.Bad(rule, key, cfg, p.Pos(fn.Pos()), "DecodeColumn never lets its rows parameter determine anything (it is at most compared with constants): the number of rows the column ends up with comes from a count field on the wire alone and need not equal the block's row count")
		}
	}
	c.R.Floor(rule, cfg, n, 40)
}

// finderFails: g is a helper whose comparison `ifi` (inside a loop) has an edge from which only
// returns of a "found" marker are reachable, every other return yields one constant "none"
// value, and in caller every test of the helper's result sends the found side to failure only.
func finderFails(g *ssa.Function, ifi *ssa.If, caller *ssa.Function) bool {
	for j := 0; j < g.Signature.Results().Len(); j++ {
		if finderFailsAt(g, ifi, caller, j) {
			return true
		}
	}
	return false
}

func finderFailsAt(g *ssa.Function, ifi *ssa.If, caller *ssa.Function, j int) bool {
	b := ifi.Block()
	for si := 0; si < 2; si++ {
		foundRets := map[*ssa.Return]bool{}
		loops := false
		hits := core.ReachAvoiding(core.Point{B: b.Succs[si], I: -1}, func(x ssa.Instruction) bool {
			if x == ssa.Instruction(ifi) {
				loops = true
				return true
			}
			_, ok := x.(*ssa.Return)
			return ok
		}, nil, nil)
		for _, h := range hits {
			if r, ok := h.At.(*ssa.Return); ok {
				foundRets[r] = true
			}
		}
		if loops || len(foundRets) == 0 {
			continue
		}
		// the other returns: one constant
		var none *int64
		okNone := true
		for _, bb := range g.Blocks {
			r, ok := bb.Instrs[len(bb.Instrs)-1].(*ssa.Return)
			if !ok || foundRets[r] {
				continue
			}
			k, okc := constIntOrBool(core.ResolveCellLoad(r.Results[j], r))
			if !okc || none != nil && *none != k {
				okNone = false
				break
			}
			none = &k
		}
		if !okNone || none == nil {
			continue
		}
		clash := false
		for r := range foundRets {
			if k, okc := constIntOrBool(core.ResolveCellLoad(r.Results[j], r)); okc && k == *none {
				clash = true
			}
		}
		if clash {
			continue
		}
		// caller side
		okCaller, any := true, false
		for _, call := range core.Calls(caller) {
			if core.StaticFn(call) != g {
				continue
			}
			cv := call.Value()
			if cv == nil {
				continue
			}
			var v ssa.Value = cv
			if g.Signature.Results().Len() > 1 {
				var ex ssa.Value
				for _, r := range *v.Referrers() {
					if e, ok := r.(*ssa.Extract); ok && e.Index == j {
						ex = e
					}
				}
				if ex == nil {
					continue
				}
				v = ex
			}
			for _, cb := range caller.Blocks {
				ci, ok := cb.Instrs[len(cb.Instrs)-1].(*ssa.If)
				if !ok {
					continue
				}
				taken, ok := foldCondAt(ci.Cond, v, *none)
				if !ok {
					continue
				}
				any = true
				foundSucc := 0
				if taken {
					foundSucc = 1
				}
				w := core.ReachAvoiding(core.Point{B: cb.Succs[foundSucc], I: -1}, func(x ssa.Instruction) bool {
					if r, isRet := x.(*ssa.Return); isRet {
						return defaultSuccess(caller, r)
					}
					return core.IsCallOf(x, isColMethod("DecodeColumn"))
				}, nil, nil)
				if len(w) > 0 {
					okCaller = false
				}
			}
		}
		if any && okCaller {
			return true
		}
	}
	return false
}

func constIntOrBool(v ssa.Value) (int64, bool) {
	if k, ok := core.ConstInt(v); ok {
		return k, true
	}
	if c, ok := v.(*ssa.Const); ok && c.Value != nil {
		switch c.Value.String() {
		case "true":
			return 1, true
		case "false":
			return 0, true
		}
	}
	return 0, false
}

// foldCondAt evaluates cond when value v equals k: cond is v itself (bool), !v, or a comparison of v with a constant.
func foldCondAt(cond, v ssa.Value, k int64) (bool, bool) {
	c, pol := core.StripNot(cond)
	if c == v {
		return (k != 0) == pol, true
	}
	bo, ok := c.(*ssa.BinOp)
	if !ok {
		return false, false
	}
	var a, b int64
	switch {
	case bo.X == v:
		kc, ok := core.ConstInt(bo.Y)
		if !ok {
			return false, false
		}
		a, b = k, kc
	case bo.Y == v:
		kc, ok := core.ConstInt(bo.X)
		if !ok {
			return false, false
		}
		a, b = kc, k
	default:
		return false, false
	}
	var r bool
	switch bo.Op {
	case token.EQL:
		r = a == b
	case token.NEQ:
		r = a != b
	case token.LSS:
		r = a < b
	case token.LEQ:
		r = a <= b
	case token.GTR:
		r = a > b
	case token.GEQ:
		r = a >= b
	default:
		return false, false
	}
	return r == pol, true
}

// ---- C06.lastindex
// ruleLastIndex: x[n-1] only where n >= 1 is established.
func ruleLastIndex(c *Ctx, p *core.Program, rule string) {
	c.R.Rule(rule, "in the column decoders (DecodeColumn and the library functions they call), an element access x[n-1] - n being the row-count parameter or a len() - or x[len(x)-K] on a buffer read as rows*K bytes is reachable only through a test that establishes n >= 1 (n == 0 -> return, n > 0, n != 0, n >= 1, len(x) > 0 ... on the same quantity): a nested Array or Map value column is legally decoded with zero rows when every outer row is empty, and an unguarded last-element access then panics with index -1")
	cfg := p.Cfg.Name
	n := 0
	seenFn := map[*ssa.Function]bool{}
	var fns []*ssa.Function
	for _, ct := range columnTypes(p) {
		if fn := methodOf(p, ct, "DecodeColumn"); fn != nil && fn.Blocks != nil && !seenFn[fn] {
			seenFn[fn] = true
			fns = append(fns, fn)
		}
	}
	sameQty := func(a, b ssa.Value) bool {
		a, b = stripConv(a), stripConv(b)
		if a == b {
			return true
		}
		// two len() calls of the same field
		la, ok1 := a.(*ssa.Call)
		lb, ok2 := b.(*ssa.Call)
		if ok1 && ok2 {
			ba, oka := la.Call.Value.(*ssa.Builtin)
			bb, okb := lb.Call.Value.(*ssa.Builtin)
			if oka && okb && ba.Name() == "len" && bb.Name() == "len" {
				pa, pb := accessPath(la.Call.Args[0], 0), accessPath(lb.Call.Args[0], 0)
				return pa == pb && pa != "?" && !strings.Contains(pa, "local")
			}
		}
		return false
	}
	for _, fn := range fns {
		k := 0
		for _, b := range fn.Blocks {
			for _, in := range b.Instrs {
				var idx ssa.Value
				switch x := in.(type) {
				case *ssa.IndexAddr:
					idx = x.Index
				case *ssa.Index:
					idx = x.Index
				default:
					continue
				}
				sub, ok := stripConv(idx).(*ssa.BinOp)
				if !ok || sub.Op != token.SUB {
					continue
				}
				kc, okc := core.ConstInt(sub.Y)
				if !okc || kc < 1 {
					continue
				}
				q := stripConv(sub.X)
				isLen := false
				if cl, ok := q.(*ssa.Call); ok {
					if bi, ok := cl.Call.Value.(*ssa.Builtin); ok && bi.Name() == "len" {
						isLen = true
						// x[len(x)-K] with x = a read of rows*c bytes, c >= K: the quantity that must be >= 1 is rows
						if kc > 1 {
							ok2 := false
							if ex, isEx := cl.Call.Args[0].(*ssa.Extract); isEx {
								if rc, isCall := ex.Tuple.(*ssa.Call); isCall && len(rc.Call.Args) > 0 {
									if mul, isMul := stripConv(rc.Call.Args[len(rc.Call.Args)-1]).(*ssa.BinOp); isMul && mul.Op == token.MUL {
										if cf, okf := core.ConstInt(mul.Y); okf && cf >= kc {
											q, ok2 = stripConv(mul.X), true
										} else if cf, okf := core.ConstInt(mul.X); okf && cf >= kc {
											q, ok2 = stripConv(mul.Y), true
										}
									}
								}
							}
							if !ok2 {
								continue // some other offset arithmetic: not this rule
							}
						}
					}
				}
				if kc > 1 && !isLen {
					continue
				}
				if _, isParam := q.(*ssa.Parameter); !isParam && !isLen {
					continue // i-1 of a loop index etc.: not this rule
				}
				n++
				k++
				key := sprintf("%s/last#%d", core.FuncName(fn), k)
				edges := core.CondEdges(fn, true, func(cond ssa.Value) (bool, bool) {
					bo, ok := cond.(*ssa.BinOp)
					if !ok {
						return false, false
					}
					// predicate: quantity >= 1
					if c0, okc := core.ConstInt(bo.Y); okc && sameQty(bo.X, q) {
						switch {
						case bo.Op == token.GTR && c0 == 0, bo.Op == token.GEQ && c0 == 1, bo.Op == token.NEQ && c0 == 0:
							return true, true
						case bo.Op == token.EQL && c0 == 0, bo.Op == token.LSS && c0 == 1, bo.Op == token.LEQ && c0 == 0:
							return false, true
						}
					}
					if c0, okc := core.ConstInt(bo.X); okc && sameQty(bo.Y, q) {
						switch {
						case bo.Op == token.LSS && c0 == 0, bo.Op == token.LEQ && c0 == 1, bo.Op == token.NEQ && c0 == 0:
							return true, true
						case bo.Op == token.EQL && c0 == 0, bo.Op == token.GTR && c0 == 1, bo.Op == token.GEQ && c0 == 0:
							return false, true
						}
					}
					return false, false
				})
				if len(edges) > 0 && core.OnlyViaEdges(fn, in, edges) {
					c.R.Ok(rule, key, cfg, p.Pos(in.Pos()), "n >= 1 established before x[n-1]")
				} else {
					c.R.Bad(rule, key, cfg, p.Pos(in.Pos()), "x[n-1] is reachable with n = 0: decoding this column with zero rows (an inner column of all-empty outer rows) panics with index out of range [-1]")
				}
			}
		}
	}
	c.R.Count("last-element accesses in decoders["+cfg+"]", n)
}

// ---- C06.config
// configFields: fields of a column that size an allocation in its decoder as a
// trusted factor ("TypeName.Field"), discovered from the allocation sinks.
func configFields(p *core.Program) map[string]bool {
	out := map[string]bool{}
	var walk func(v ssa.Value, d int)
	walk = func(v ssa.Value, d int) {
		if d > 8 || v == nil {
			return
		}
		if isRecvConfig(v) {
			x := stripConv(v)
			switch y := x.(type) {
			case *ssa.UnOp:
				if fa, ok := y.X.(*ssa.FieldAddr); ok {
					if nm := core.NamedOf(fa.X.Type()); nm != nil {
						out[nm.Obj().Name()+"."+fieldNameOnly(fa.X.Type(), fa.Field)] = true
					}
				}
			case *ssa.Field:
				if nm := core.NamedOf(y.X.Type()); nm != nil {
					out[nm.Obj().Name()+"."+fieldNameOnly(y.X.Type(), y.Field)] = true
				}
			}
			return
		}
		switch x := v.(type) {
		case *ssa.BinOp:
			walk(x.X, d+1)
			walk(x.Y, d+1)
		case *ssa.Convert:
			walk(x.X, d+1)
		case *ssa.ChangeType:
			walk(x.X, d+1)
		}
	}
	for _, fn := range decodeSide(p) {
		for _, b := range fn.Blocks {
			for _, in := range b.Instrs {
				switch x := in.(type) {
				case *ssa.MakeSlice:
					if bo, ok := stripConv(x.Len).(*ssa.BinOp); ok && bo.Op == token.MUL {
						walk(bo, 0)
					}
				case *ssa.Call:
					if f := core.CalleeFunc(x); f != nil && core.IsMethod(f, core.PkgProto, "Buffer", "Ensure") {
						if bo, ok := stripConv(x.Call.Args[1]).(*ssa.BinOp); ok && bo.Op == token.MUL {
							walk(bo, 0)
						}
					}
					// a helper of package proto that sizes a buffer from one of its parameters (readFixedData(r, &buf, n))
					if g := core.StaticFn(x); g != nil && g.Blocks != nil && pkgOf(g) != nil && pkgOf(g).Path() == core.PkgProto {
						for pi, gp := range g.Params {
							if pi >= len(x.Call.Args) {
								break
							}
							sizes := false
							for _, gb := range g.Blocks {
								for _, gi := range gb.Instrs {
									if mk, ok := gi.(*ssa.MakeSlice); ok && stripConv(mk.Len) == ssa.Value(gp) {
										sizes = true
									}
								}
							}
							if sizes {
								if bo, ok := stripConv(x.Call.Args[pi]).(*ssa.BinOp); ok && bo.Op == token.MUL {
									walk(bo, 0)
								}
							}
						}
					}
				}
			}
		}
	}
	return out
}

func isStrconvParse(v ssa.Value) bool {
	cl, ok := v.(*ssa.Call)
	if !ok {
		return false
	}
	f := core.CalleeFunc(cl)
	return f != nil && f.Pkg() != nil && f.Pkg().Path() == "strconv" && (f.Name() == "Atoi" || strings.HasPrefix(f.Name(), "Parse"))
}

// parsedConfigStores: stores of a parsed number into one of the configuration
// fields inside fn; each is reported with whether the number is range-checked
// (constant upper bound and constant lower bound) on every path to the store.
func parsedConfigStores(bc *boundCtx, fn *ssa.Function, fields map[string]bool, setters map[*ssa.Function]int) (sites []ssa.Instruction, checked []bool) {
	lowerOK := func(v ssa.Value, at ssa.Instruction) bool {
		same := func(x ssa.Value) bool { return stripConv(x) == stripConv(v) }
		lower := core.CondEdges(fn, false, func(cond ssa.Value) (bool, bool) {
			bo, ok := cond.(*ssa.BinOp)
			if !ok {
				return false, false
			}
			if _, okc := core.ConstInt(bo.Y); okc && same(bo.X) {
				switch bo.Op {
				case token.LSS, token.LEQ:
					return true, true
				case token.GTR, token.GEQ:
					return false, true
				}
			}
			return false, false
		})
		return len(lower) > 0 && core.OnlyViaEdges(fn, at, lower)
	}
	add := func(val ssa.Value, at ssa.Instruction) {
		if !core.DependsOn(val, isStrconvParse, false) {
			return
		}
		v := stripConv(val)
		if _, unsigned := v.(*ssa.Extract); unsigned {
			if b, ok := v.Type().Underlying().(*types.Basic); ok && b.Info()&types.IsUnsigned != 0 {
				sites = append(sites, at)
				checked = append(checked, bc.checkedOnPath(v, at))
				return
			}
		}
		sites = append(sites, at)
		checked = append(checked, bc.checkedOnPath(v, at) && lowerOK(v, at))
	}
	for _, b := range fn.Blocks {
		for _, in := range b.Instrs {
			switch x := in.(type) {
			case *ssa.Store:
				fa, ok := x.Addr.(*ssa.FieldAddr)
				if !ok {
					continue
				}
				nm := core.NamedOf(fa.X.Type())
				if nm == nil || !fields[nm.Obj().Name()+"."+fieldNameOnly(fa.X.Type(), fa.Field)] {
					continue
				}
				add(x.Val, in)
			case *ssa.Call:
				if sf := core.StaticFn(x); sf != nil {
					if pi, ok := setters[sf]; ok && pi < len(x.Call.Args) {
						add(x.Call.Args[pi], in)
					}
				}
			}
		}
	}
	return
}

// configSetters: methods that store one of their parameters directly into a configuration field.
func configSetters(p *core.Program, fields map[string]bool) map[*ssa.Function]int {
	out := map[*ssa.Function]int{}
	for _, fn := range p.Funcs() {
		if pkgOf(fn) == nil || pkgOf(fn).Path() != core.PkgProto {
			continue
		}
		for _, b := range fn.Blocks {
			for _, in := range b.Instrs {
				s, ok := in.(*ssa.Store)
				if !ok {
					continue
				}
				fa, ok := s.Addr.(*ssa.FieldAddr)
				if !ok {
					continue
				}
				nm := core.NamedOf(fa.X.Type())
				if nm == nil || !fields[nm.Obj().Name()+"."+fieldNameOnly(fa.X.Type(), fa.Field)] {
					continue
				}
				for i, pr := range fn.Params {
					if stripConv(s.Val) == ssa.Value(pr) {
						out[fn] = i
					}
				}
			}
		}
	}
	return out
}

func ruleConfigParsed(c *Ctx, p *core.Program, rule string) {
	c.R.Rule(rule, "a column's configuration field that multiplies the row count in its decoder's allocation (FixedString's Size) is a trusted factor only while the caller sets it: wherever package proto stores a number parsed from a string (a column type sent by the server) into such a field - directly, through a composite literal or through its setter - the number is compared with a constant upper bound and a constant lower bound on every path to the store; otherwise `FixedString(-1)` or `FixedString(4611686018427387904)` in a block header makes the decoder's make() panic")
	cfg := p.Cfg.Name
	fields := configFields(p)
	if len(fields) == 0 {
		c.R.Unk(rule, "config-fields", cfg, "", "no configuration field sizes an allocation")
		return
	}
	setters := configSetters(p, fields)
	bc := newBoundCtx(p)
	n := 0
	for _, fn := range p.Funcs() {
		if pkgOf(fn) == nil || pkgOf(fn).Path() != core.PkgProto || strings.HasPrefix(fn.Name(), "verifFixture") {
			continue
		}
		sites, checked := parsedConfigStores(bc, fn, fields, setters)
		for i, at := range sites {
			n++
			key := sprintf("%s/parsed-config#%d", core.FuncName(fn), i+1)
			if checked[i] {
				c.R.Ok(rule, key, cfg, p.Pos(at.Pos()), "parsed size range-checked before it is stored")
			} else {
				c.R.Bad(rule, key, cfg, p.Pos(at.Pos()), "a number parsed from the column type string is stored into an allocation-sizing configuration field without a constant lower and upper bound: a hostile type string makes the decoder's allocation panic or abort")
			}
		}
	}
	names := []string{}
	for k := range fields {
		names = append(names, k)
	}
	sort.Strings(names)
	c.R.Ok(rule, "config-fields", cfg, "", sprintf("fields %v, %d setters, %d parsed stores", names, len(setters), n))
}

// ---- C06.configured
// A row accessor that panics while a boolean "configured" flag of the column is
// unset relies on every way of configuring the column setting the flag. The
// caller sets it through the With* builders; for a column configured from the
// wire the only other way is the type's own Infer.
func ruleConfiguredFlag(c *Ctx, p *core.Program, rule string) {
	c.R.Rule(rule, "a column whose accessors panic while one of its boolean fields is false (ColDateTime64.PrecisionSet) is usable after decoding only if inference sets that field: for every column type with such a guard and an Infer method, each success exit of Infer is reached only through a store of `true` to the field - otherwise a type string accepted by Infer leaves a successfully decoded column whose Row(i) panics")
	cfg := p.Cfg.Name
	n := 0
	for _, ct := range columnTypes(p) {
		flags := map[string]token.Pos{}
		for _, fn := range p.Funcs() {
			if fn.Blocks == nil || core.RecvNamed2(fn) != ct {
				continue
			}
			for _, b := range fn.Blocks {
				for _, in := range b.Instrs {
					if _, ok := in.(*ssa.Panic); !ok {
						continue
					}
					for _, gb := range fn.Blocks {
						ifi, ok := gb.Instrs[len(gb.Instrs)-1].(*ssa.If)
						if !ok || !gb.Dominates(b) {
							continue
						}
						cond := ifi.Cond
						if u, ok := cond.(*ssa.UnOp); ok && u.Op == token.NOT {
							cond = u.X
						}
						name := ""
						switch x := cond.(type) {
						case *ssa.UnOp:
							if fa, ok := x.X.(*ssa.FieldAddr); ok && x.Op == token.MUL && core.NamedOf(fa.X.Type()) == ct {
								name = fieldNameOnly(fa.X.Type(), fa.Field)
							}
						case *ssa.Field:
							if core.NamedOf(x.X.Type()) == ct {
								name = fieldNameOnly(x.X.Type(), x.Field)
							}
						}
						if name != "" {
							if b, ok := cond.Type().Underlying().(*types.Basic); ok && b.Kind() == types.Bool {
								flags[name] = in.Pos()
							}
						}
					}
				}
			}
		}
		if len(flags) == 0 {
			continue
		}
		inf := methodOf(p, ct, "Infer")
		if inf == nil || inf.Blocks == nil {
			continue
		}
		for name := range flags {
			n++
			key := ct.Obj().Name() + "." + name
			isSet := func(in ssa.Instruction) bool {
				s, ok := in.(*ssa.Store)
				if !ok {
					return false
				}
				fa, ok := s.Addr.(*ssa.FieldAddr)
				if !ok || core.NamedOf(fa.X.Type()) != ct || fieldNameOnly(fa.X.Type(), fa.Field) != name {
					// a builder of the same type that sets it (WithPrecision)
					return false
				}
				k, ok := s.Val.(*ssa.Const)
				return ok && k.Value != nil && k.Value.String() == "true"
			}
			setter := func(in ssa.Instruction) bool {
				if isSet(in) {
					return true
				}
				cl, ok := in.(*ssa.Call)
				if !ok {
					return false
				}
				sf := core.StaticFn(cl)
				if sf == nil || sf.Blocks == nil || core.RecvNamed2(sf) != ct {
					return false
				}
				// must set on every path of the helper
				return len(core.ReachAvoiding(core.Entry(sf), core.IsExit, isSet, nil)) == 0
			}
			bad := false
			for _, b := range inf.Blocks {
				ret, ok := b.Instrs[len(b.Instrs)-1].(*ssa.Return)
				if !ok || !defaultSuccess(inf, ret) {
					continue
				}
				w := core.ReachAvoiding(core.Entry(inf), func(x ssa.Instruction) bool { return x == ssa.Instruction(ret) }, setter, nil)
				if len(w) > 0 {
					bad = true
					c.R.Bad(rule, key, cfg, p.Pos(ret.Pos()), "Infer can succeed without setting "+name+": the column then decodes a block and its accessors panic on every row")
					break
				}
			}
			if !bad {
				c.R.Ok(rule, key, cfg, p.Pos(inf.Pos()), "every success exit of Infer passes a store of true to "+name)
			}
		}
	}
	if n == 0 {
		c.R.Unk(rule, "population", cfg, "", "no flag-guarded panic found (expected ColDateTime64.PrecisionSet)")
	}
}

// ---- C06.infer-cache
// inferCacheLeaks: fn is an Infer-like method with a shortcut `param == recv.F -> return nil`
// (F is the cache key). It returns the exits that can be reached after a store to another receiver
// field without a store to F in between: the key then vouches for state it no longer describes.
func inferCacheLeaks(fn *ssa.Function) (key string, leaks []core.Witness) {
	if fn.Blocks == nil || len(fn.Params) < 2 || fn.Signature.Recv() == nil {
		return "", nil
	}
	recv, par := fn.Params[0], fn.Params[1]
	recvField := func(v ssa.Value) string {
		u, ok := v.(*ssa.UnOp)
		if !ok || u.Op != token.MUL {
			return ""
		}
		fa, ok := u.X.(*ssa.FieldAddr)
		if !ok || fa.X != ssa.Value(recv) {
			return ""
		}
		return fieldNameOnly(fa.X.Type(), fa.Field)
	}
	// the shortcut: an If on `par == recv.F` whose equal edge leads straight to a success return
	for _, b := range fn.Blocks {
		ifi, ok := b.Instrs[len(b.Instrs)-1].(*ssa.If)
		if !ok {
			continue
		}
		bo, ok := ifi.Cond.(*ssa.BinOp)
		if !ok || (bo.Op != token.EQL && bo.Op != token.NEQ) {
			continue
		}
		f := ""
		switch {
		case bo.X == ssa.Value(par):
			f = recvField(bo.Y)
		case bo.Y == ssa.Value(par):
			f = recvField(bo.X)
		}
		if f == "" {
			continue
		}
		eq := 0
		if bo.Op == token.NEQ {
			eq = 1
		}
		tb := b.Succs[eq]
		if ret, ok := tb.Instrs[len(tb.Instrs)-1].(*ssa.Return); ok && defaultSuccess(fn, ret) {
			key = f
		}
	}
	if key == "" {
		return "", nil
	}
	storesKey := func(in ssa.Instruction) bool {
		s, ok := in.(*ssa.Store)
		if !ok {
			return false
		}
		fa, ok := s.Addr.(*ssa.FieldAddr)
		return ok && fa.X == ssa.Value(recv) && fieldNameOnly(fa.X.Type(), fa.Field) == key
	}
	for _, b := range fn.Blocks {
		for _, in := range b.Instrs {
			mut := false
			switch x := in.(type) {
			case *ssa.Store:
				if fa, ok := x.Addr.(*ssa.FieldAddr); ok && fa.X == ssa.Value(recv) && fieldNameOnly(fa.X.Type(), fa.Field) != key {
					mut = true
				}
			case *ssa.Call:
				// re-configuring a nested column held in a receiver field (the wrapper forwards Infer) changes
				// state the key vouches for just as well
				if x.Call.IsInvoke() && x.Call.Method.Name() == "Infer" && strings.HasPrefix(accessPath(x.Call.Value, 0), "recv.") {
					mut = true
				}
				// a method of the same receiver that writes its fields (parse)
				if sf := core.StaticFn(x); sf != nil && sf.Blocks != nil && len(x.Call.Args) > 0 && x.Call.Args[0] == ssa.Value(recv) {
					for _, sb := range sf.Blocks {
						for _, si := range sb.Instrs {
							switch y := si.(type) {
							case *ssa.Store:
								if fa, ok := y.Addr.(*ssa.FieldAddr); ok && fa.X == ssa.Value(sf.Params[0]) {
									mut = true
								}
							case *ssa.MapUpdate:
								mut = true
							}
						}
					}
				}
			}
			if !mut {
				continue
			}
			// a key invalidated (set to a constant) before the change vouches for nothing
			invalidated := func(x ssa.Instruction) bool {
				if !storesKey(x) {
					return false
				}
				_, isConst := x.(*ssa.Store).Val.(*ssa.Const)
				return isConst
			}
			m := in
			if len(core.ReachAvoiding(core.Entry(fn), func(x ssa.Instruction) bool { return x == m }, invalidated, nil)) == 0 {
				continue
			}
			leaks = append(leaks, core.ReachAvoiding(core.PointOf(in), core.IsExit, storesKey, nil)...)
		}
	}
	return key, leaks
}

func ruleInferCache(c *Ctx, p *core.Program, rule string) {
	c.R.Rule(rule, "an Infer method that skips its work when the requested type equals a remembered one (`t == recv.F -> return nil`) keeps that key truthful: after any write to other receiver state (directly or through a method of the receiver) no exit - success or failure - is reachable without storing the key (unless the key was reset to a constant before the change); otherwise a rejected type leaves the column half re-configured while the key still matches the earlier type, the next block of that type skips inference and is decoded with the wrong width (0 rows reported, Row panics)")
	cfg := p.Cfg.Name
	n := 0
	for _, fn := range p.Funcs() {
		if pkgOf(fn) == nil || pkgOf(fn).Path() != core.PkgProto || fn.Name() != "Infer" {
			continue
		}
		if nm := core.RecvNamed2(fn); nm != nil && strings.HasPrefix(nm.Obj().Name(), "verifFixture") {
			continue
		}
		key, leaks := inferCacheLeaks(fn)
		if key == "" {
			continue
		}
		n++
		k := core.FuncName(fn) + "/key-" + key
		if len(leaks) > 0 {
			c.R.Bad(rule, k, cfg, p.Pos(leaks[0].At.Pos()), "Infer can return after changing the column's state without updating the remembered type "+key+": a later request for the remembered type is skipped although the state no longer matches it", p.TrailString(leaks[0])...)
		} else {
			c.R.Ok(rule, k, cfg, p.Pos(fn.Pos()), "every exit after a state change stores the key")
		}
	}
	c.R.Count("Infer methods with a same-type shortcut["+cfg+"]", n)
}

// ---- C06.infer-index: Infer does not index a list parsed from the type string by its own positions
// inferIndexHits: in fn, indexed accesses s[i] where i is the index of a loop over another collection
// and no comparison involving len(s) dominates the access.
func inferIndexHits(fn *ssa.Function) (sites []ssa.Instruction, guarded []bool) {
	for _, b := range fn.Blocks {
		for _, in := range b.Instrs {
			var x, idx ssa.Value
			switch v := in.(type) {
			case *ssa.IndexAddr:
				x, idx = v.X, v.Index
			case *ssa.Index:
				x, idx = v.X, v.Index
			default:
				continue
			}
			if _, isSlice := x.Type().Underlying().(*types.Slice); !isSlice {
				continue
			}
			ph, ok := stripConv(idx).(*ssa.Phi)
			if !ok {
				// rotated range loops index with phi+1
				if bo, okb := stripConv(idx).(*ssa.BinOp); okb && bo.Op == token.ADD {
					ph, ok = bo.X.(*ssa.Phi)
				}
				if !ok {
					continue
				}
			}
			// the collection the loop runs over: the bound of the loop test
			var over ssa.Value
			for _, hb := range fn.Blocks {
				ifi, okI := hb.Instrs[len(hb.Instrs)-1].(*ssa.If)
				if !okI {
					continue
				}
				bo, okB := ifi.Cond.(*ssa.BinOp)
				if !okB || bo.Op != token.LSS {
					continue
				}
				if !core.DependsOn(bo.X, func(v ssa.Value) bool { return v == ssa.Value(ph) }, false) {
					continue
				}
				if cl, okC := stripConv(bo.Y).(*ssa.Call); okC {
					if bi, okb := cl.Call.Value.(*ssa.Builtin); okb && bi.Name() == "len" {
						over = cl.Call.Args[0]
					}
				}
			}
			if over == nil || over == x {
				continue
			}
			// the same collection loaded twice (a field) is not "another" one
			if ox, oo := accessPath(x, 0), accessPath(over, 0); ox == oo && ox != "?" && !strings.Contains(ox, "local") {
				continue
			}
			g := false
			for _, hb := range fn.Blocks {
				ifi, okI := hb.Instrs[len(hb.Instrs)-1].(*ssa.If)
				if !okI || !hb.Dominates(in.Block()) {
					continue
				}
				if core.DependsOn(ifi.Cond, func(v ssa.Value) bool {
					cl, okC := v.(*ssa.Call)
					if !okC {
						return false
					}
					bi, okb := cl.Call.Value.(*ssa.Builtin)
					return okb && bi.Name() == "len" && cl.Call.Args[0] == x
				}, false) {
					g = true
				}
			}
			sites = append(sites, in)
			guarded = append(guarded, g)
		}
	}
	return
}

func ruleInferIndex(c *Ctx, p *core.Program, rule string) {
	c.R.Rule(rule, "type inference is total on malformed headers: in every Infer method of package proto (and the proto helpers it calls), a slice that is indexed with the position of a loop over ANOTHER collection (the target's own elements against the element list parsed from the server's type string) is only indexed behind a comparison involving its length - `Tuple(String)` announced for a two-element target otherwise panics with index out of range before the type check can reject it")
	cfg := p.Cfg.Name
	n := 0
	for _, fn := range p.Funcs() {
		if pkgOf(fn) == nil || pkgOf(fn).Path() != core.PkgProto || fn.Name() != "Infer" || fn.Blocks == nil {
			continue
		}
		if nm := core.RecvNamed2(fn); nm != nil && strings.HasPrefix(nm.Obj().Name(), "verifFixture") {
			continue
		}
		for g := range core.StaticReach(fn, 1) {
			if pkgOf(g) == nil || pkgOf(g).Path() != core.PkgProto {
				continue
			}
			sites, guarded := inferIndexHits(g)
			for i, at := range sites {
				n++
				key := sprintf("%s/index#%d", core.FuncName(g), i+1)
				if guarded[i] {
					c.R.Ok(rule, key, cfg, p.Pos(at.Pos()), "length compared before the access")
				} else {
					c.R.Bad(rule, key, cfg, p.Pos(at.Pos()), "a list derived from the server's type string is indexed with the position in the target's own collection without comparing the lengths: a header announcing fewer elements panics (index out of range)")
				}
			}
		}
	}
	c.R.Count("cross-collection indexed accesses in Infer["+cfg+"]", n)
}

// ---- C06.sum-overflow: a running offset plus an unbounded wire length cannot wrap around
func ruleSumOverflow(c *Ctx, p *core.Program, rule string) {
	c.R.Rule(rule, "in decoders, an addition of a length read from the wire that no check bounds (StrLen, UVarInt, ...) to a non-constant running value (the end offset of the previous string) is guarded against wrap-around: on every path to the addition a comparison of that length with an expression of the running value has been passed (n > MaxInt - end fails), or the sum is compared with the running value before it is used - otherwise the length 2^63-1 after a short first string makes the end offset negative and the slice expression that uses it panics")
	cfg := p.Cfg.Name
	bc := newBoundCtx(p)
	n := 0
	wire := func(v ssa.Value) ssa.Value {
		v = stripConv(v)
		if e, ok := v.(*ssa.Extract); ok {
			if isWireRead(e.Tuple) {
				return v
			}
			return nil
		}
		if isWireRead(v) {
			return v
		}
		return nil
	}
	for _, fn := range decodeSide(p) {
		for _, b := range fn.Blocks {
			for _, in := range b.Instrs {
				bo, ok := in.(*ssa.BinOp)
				if !ok || bo.Op != token.ADD {
					continue
				}
				if bt, ok := bo.Type().Underlying().(*types.Basic); !ok || bt.Info()&types.IsInteger == 0 {
					continue
				}
				var w, other ssa.Value
				if w = wire(bo.X); w != nil {
					other = bo.Y
				} else if w = wire(bo.Y); w != nil {
					other = bo.X
				} else {
					continue
				}
				if _, isC := core.ConstInt(other); isC {
					continue
				}
				if bc.bounded(w, bo, 0) {
					continue
				}
				n++
				key := core.FuncName(fn) + sprintf("/sum#%d", n)
				// (a) a comparison of the length with something computed from the running value dominates the sum
				pre := core.CondEdges(fn, false, func(cond ssa.Value) (bool, bool) {
					cmp, ok := cond.(*ssa.BinOp)
					if !ok {
						return false, false
					}
					dep := func(v ssa.Value) bool {
						return core.DependsOn(v, func(x ssa.Value) bool { return x == other || sameLoad(x, other) }, true)
					}
					switch {
					case stripConv(cmp.X) == w && dep(cmp.Y):
						switch cmp.Op {
						case token.GTR, token.GEQ:
							return true, true
						case token.LSS, token.LEQ:
							return false, true
						}
					case stripConv(cmp.Y) == w && dep(cmp.X):
						switch cmp.Op {
						case token.LSS, token.LEQ:
							return true, true
						case token.GTR, token.GEQ:
							return false, true
						}
					}
					return false, false
				})
				if len(pre) > 0 && core.OnlyViaEdges(fn, bo, pre) {
					c.R.Ok(rule, key, cfg, p.Pos(bo.Pos()), "the length is compared with the room left before it is added")
					continue
				}
				// (b) the sum is compared with the running value (wrap-around test) somewhere after
				post := false
				for _, r := range *bo.Referrers() {
					if cmp, ok := r.(*ssa.BinOp); ok && (cmp.Op == token.LSS || cmp.Op == token.GTR || cmp.Op == token.LEQ || cmp.Op == token.GEQ) {
						o := cmp.Y
						if cmp.Y == ssa.Value(bo) {
							o = cmp.X
						}
						if o == other || sameLoad(o, other) {
							post = true
						}
					}
				}
				if post {
					c.R.Ok(rule, key, cfg, p.Pos(bo.Pos()), "the sum is compared with the running value (wrap-around test)")
					continue
				}
				c.R.Bad(rule, key, cfg, p.Pos(bo.Pos()), sprintf("%s = %s + %s: the wire length is only known to be non-negative, the sum wraps around for a length near 2^63 and the negative offset reaches a slice expression (panic)", bo.Name(), other.Name(), w.Name()))
			}
		}
	}
	c.R.Count("running offset + unbounded wire length["+cfg+"]", n)
}

// sameLoad: a and b are loads of the same field of the same base (p.End read twice).
func sameLoad(a, b ssa.Value) bool {
	la, ok1 := a.(*ssa.UnOp)
	lb, ok2 := b.(*ssa.UnOp)
	if !ok1 || !ok2 || la.Op != token.MUL || lb.Op != token.MUL {
		return false
	}
	fa, ok1 := la.X.(*ssa.FieldAddr)
	fb, ok2 := lb.X.(*ssa.FieldAddr)
	return ok1 && ok2 && fa.X == fb.X && fa.Field == fb.Field
}

// ---- C06.zstd-cap: the ZSTD decoder's output is capped like the other codecs'
func ruleZstdCap(c *Ctx, p *core.Program, rule string) {
	c.R.Rule(rule, "every zstd decoder created in package compress is given WithDecoderMaxMemory(K) with a constant K no larger than the frame cap maxDataSize: DecodeAll sizes its output from the zstd frame's own content-size field, not from the checked data-size field of the ClickHouse frame header, so without the option a 57 KB payload makes the reader allocate 512 MiB (up to the decoder's 64 GiB default) before the size mismatch is noticed")
	cfg := p.Cfg.Name
	var limit int64 = -1
	if pk := p.Pkgs[core.PkgCompress]; pk != nil {
		if k, ok := pk.Types.Scope().Lookup("maxDataSize").(*types.Const); ok {
			if v, ok := constant.Int64Val(k.Val()); ok {
				limit = v
			}
		}
	}
	n := 0
	for _, fn := range p.Funcs() {
		if pkgOf(fn) == nil || pkgOf(fn).Path() != core.PkgCompress {
			continue
		}
		for _, call := range core.Calls(fn) {
			f := core.CalleeFunc(call)
			if f == nil || f.Pkg() == nil || !strings.HasSuffix(f.Pkg().Path(), "klauspost/compress/zstd") || f.Name() != "NewReader" {
				continue
			}
			n++
			key := core.CallKey(fn, call)
			if limit < 0 {
				c.R.Unk(rule, key, cfg, p.Pos(call.Pos()), "constant maxDataSize not found in package compress")
				continue
			}
			args := call.Common().Args
			var capv int64 = -1
			found := false
			if len(args) > 0 {
				for _, o := range variadicElems(args[len(args)-1]) {
					oc, ok := o.(*ssa.Call)
					if !ok {
						continue
					}
					of := core.CalleeFunc(oc)
					if of == nil || of.Name() != "WithDecoderMaxMemory" || len(oc.Call.Args) != 1 {
						continue
					}
					found = true
					if k, ok := core.ConstInt(stripConv(oc.Call.Args[0])); ok {
						capv = k
					} else if kc, ok := oc.Call.Args[0].(*ssa.Const); ok && kc.Value != nil {
						if u, ok := constant.Uint64Val(kc.Value); ok && u < 1<<62 {
							capv = int64(u)
						}
					}
				}
			}
			switch {
			case !found:
				c.R.Bad(rule, key, cfg, p.Pos(call.Pos()), sprintf("zstd decoder without WithDecoderMaxMemory: a hostile frame's content size decides how much DecodeAll allocates (default limit 64 GiB, the library's frame cap is %d)", limit))
			case capv < 0:
				c.R.Unk(rule, key, cfg, p.Pos(call.Pos()), "WithDecoderMaxMemory argument is not a constant")
			case capv > limit:
				c.R.Bad(rule, key, cfg, p.Pos(call.Pos()), sprintf("zstd decoder memory limit %d exceeds the frame cap maxDataSize=%d", capv, limit))
			default:
				c.R.Ok(rule, key, cfg, p.Pos(call.Pos()), sprintf("WithDecoderMaxMemory(%d) <= maxDataSize=%d", capv, limit))
			}
		}
	}
	c.R.Count("zstd decoders in package compress", n)
	c.R.Floor(rule, cfg, n, 1)
}

// ---- C06.data-index: a decoded element used as an index is range-checked on both sides
type dataIndexSite struct {
	at         ssa.Instruction
	base       ssa.Value
	bt         *types.Basic
	okUp, okLo bool
}

// dataIndexSites: slice/array accesses of fn whose index is (a conversion of) an integer element loaded from a
// slice, with the verdicts "behind an upper-bound test" and "behind a test against zero (or unsigned)".
func dataIndexSites(fn *ssa.Function) []dataIndexSite {
	var out []dataIndexSite
	for _, b := range fn.Blocks {
		for _, in := range b.Instrs {
			var idx ssa.Value
			var base ssa.Value
			switch x := in.(type) {
			case *ssa.IndexAddr:
				idx, base = x.Index, x.X
			case *ssa.Index:
				idx, base = x.Index, x.X
			default:
				continue
			}
			if _, isMap := base.Type().Underlying().(*types.Map); isMap {
				continue
			}
			src := stripConv(idx)
			ld, ok := src.(*ssa.UnOp)
			if !ok || ld.Op != token.MUL {
				continue
			}
			if _, ok := ld.X.(*ssa.IndexAddr); !ok {
				continue
			}
			bt, signed, ok := intKindOf(ld.Type())
			if !ok {
				continue
			}
			same := func(v ssa.Value) bool { return stripConv(v) == src }
			upper := core.CondEdges(fn, false, func(cond ssa.Value) (bool, bool) {
				bo, ok := cond.(*ssa.BinOp)
				if !ok {
					return false, false
				}
				switch {
				case same(bo.X):
					if k, isC := core.ConstInt(bo.Y); isC && k <= 0 {
						return false, false
					}
					switch bo.Op {
					case token.GEQ, token.GTR:
						return true, true
					case token.LSS, token.LEQ:
						return false, true
					}
				case same(bo.Y):
					switch bo.Op {
					case token.LEQ, token.LSS:
						return true, true
					case token.GTR, token.GEQ:
						return false, true
					}
				}
				return false, false
			})
			lower := core.CondEdges(fn, false, func(cond ssa.Value) (bool, bool) {
				bo, ok := cond.(*ssa.BinOp)
				if !ok || !same(bo.X) {
					return false, false
				}
				k, isC := core.ConstInt(bo.Y)
				if !isC || k != 0 {
					return false, false
				}
				switch bo.Op {
				case token.LSS:
					return true, true
				case token.GEQ:
					return false, true
				}
				return false, false
			})
			// a table with one entry per value of the element type needs no test
			full := false
			at := base.Type().Underlying()
			if pt, ok := at.(*types.Pointer); ok {
				at = pt.Elem().Underlying()
			}
			if arr, ok := at.(*types.Array); ok && !signed && bt.Kind() == types.Uint8 && arr.Len() >= 256 {
				full = true
			}
			out = append(out, dataIndexSite{
				at: in, base: base, bt: bt,
				okUp: full || len(upper) > 0 && core.OnlyViaEdges(fn, in, upper),
				okLo: !signed || len(lower) > 0 && core.OnlyViaEdges(fn, in, lower),
			})
		}
	}
	return out
}

func ruleDataIndex(c *Ctx, p *core.Program, rule string) {
	c.R.Rule(rule, "in package proto, where a slice or array is indexed by a value that is itself an element loaded from a slice of integers (a decoded raw value: an enum number, a dictionary key) - directly or through conversions - the access is reachable only through an upper-bound test of that value and, when the element type is signed, also through a test against zero: raw enum values are signed, the byte 0xff is -1 and a dense name table indexed with it panics (no such access exists today; a fixture keeps the recogniser alive)")
	cfg := p.Cfg.Name
	n := 0
	for _, fn := range p.Funcs() {
		if pkgOf(fn) == nil || pkgOf(fn).Path() != core.PkgProto || fn.Blocks == nil {
			continue
		}
		for _, s := range dataIndexSites(fn) {
			n++
			key := core.FuncName(fn) + sprintf("/index#%d", n)
			switch {
			case s.okUp && s.okLo:
				c.R.Ok(rule, key, cfg, p.Pos(s.at.Pos()), "decoded element is range-checked before it indexes")
			case !s.okLo && s.okUp:
				c.R.Bad(rule, key, cfg, p.Pos(s.at.Pos()), sprintf("a signed decoded element (%s) indexes %s behind an upper-bound test only: a raw value with the sign bit set is negative and the access panics", s.bt.Name(), s.base.Name()))
			default:
				c.R.Bad(rule, key, cfg, p.Pos(s.at.Pos()), sprintf("a decoded element (%s) indexes %s without an upper-bound test on every path", s.bt.Name(), s.base.Name()))
			}
		}
	}
	c.R.Count("decoded elements used as indices["+cfg+"]", n)
}

// intKindOf: t is an integer type, or a type parameter whose type set has only integer types; signed when any
// term is signed; the returned basic type is the (first) term's.
func intKindOf(t types.Type) (*types.Basic, bool, bool) {
	if tp, ok := t.(*types.TypeParam); ok {
		iface, ok := tp.Constraint().Underlying().(*types.Interface)
		if !ok {
			return nil, false, false
		}
		var first *types.Basic
		signed := false
		for i := 0; i < iface.NumEmbeddeds(); i++ {
			u, ok := iface.EmbeddedType(i).(*types.Union)
			if !ok {
				return nil, false, false
			}
			for j := 0; j < u.Len(); j++ {
				b, ok := u.Term(j).Type().Underlying().(*types.Basic)
				if !ok || b.Info()&types.IsInteger == 0 {
					return nil, false, false
				}
				if first == nil {
					first = b
				}
				if b.Info()&types.IsUnsigned == 0 {
					signed = true
				}
			}
		}
		return first, signed, first != nil
	}
	bt, ok := t.Underlying().(*types.Basic)
	if !ok || bt.Info()&types.IsInteger == 0 {
		return nil, false, false
	}
	return bt, bt.Info()&types.IsUnsigned == 0, true
}

// ---- C06.wire-slice: a slice bound taken from a frame header stays inside what was allocated from that same field
func ruleWireSlice(c *Ctx, p *core.Program, rule string) {
	c.R.Rule(rule, "in package compress, a slice expression whose bound is computed from a header field read off the wire (binary.LittleEndian.UintN) slices a buffer that the same function sized from that very field (the stores to the buffer's field append make([]byte, n) with n derived from the same read), or is reachable only through a comparison of the bound with len/cap of the buffer: the data size and the raw size are two independent header fields, slicing the raw buffer by the data size panics for a frame whose data size exceeds its payload")
	cfg := p.Cfg.Name
	n := 0
	// a result of a helper of the package that is computed from a header field read inside the helper
	// (rawSize, dataSize, err := r.headerSizes()) is a root like the read itself
	helperRoot := func(x ssa.Value) bool {
		ex, ok := x.(*ssa.Extract)
		if !ok {
			return false
		}
		cl, ok := ex.Tuple.(*ssa.Call)
		if !ok {
			return false
		}
		g := core.StaticFn(cl)
		if g == nil || g.Blocks == nil || pkgOf(g) == nil || pkgOf(g).Path() != core.PkgCompress {
			return false
		}
		for _, b := range g.Blocks {
			if r, ok := b.Instrs[len(b.Instrs)-1].(*ssa.Return); ok && ex.Index < len(r.Results) {
				if core.DependsOn(r.Results[ex.Index], isWireRead, false) {
					return true
				}
			}
		}
		return false
	}
	roots := func(v ssa.Value) map[ssa.Value]bool {
		out := map[ssa.Value]bool{}
		core.DependsOn(v, func(x ssa.Value) bool {
			if isWireRead(x) || helperRoot(x) {
				out[x] = true
			}
			return false
		}, false)
		return out
	}
	for _, fn := range p.Funcs() {
		if pkgOf(fn) == nil || pkgOf(fn).Path() != core.PkgCompress || fn.Blocks == nil {
			continue
		}
		// field -> roots of the sizes appended/made into it in this function
		sized := map[string]map[ssa.Value]bool{}
		for _, b := range fn.Blocks {
			for _, in := range b.Instrs {
				st, ok := in.(*ssa.Store)
				if !ok {
					continue
				}
				fa, ok := st.Addr.(*ssa.FieldAddr)
				if !ok {
					continue
				}
				f := fieldNameOnly(fa.X.Type(), fa.Field)
				core.DependsOn(st.Val, func(x ssa.Value) bool {
					if mk, ok := x.(*ssa.MakeSlice); ok {
						for r := range roots(mk.Len) {
							if sized[f] == nil {
								sized[f] = map[ssa.Value]bool{}
							}
							sized[f][r] = true
						}
					}
					return false
				}, true)
			}
		}
		for _, b := range fn.Blocks {
			for _, in := range b.Instrs {
				sl, ok := in.(*ssa.Slice)
				if !ok {
					continue
				}
				rs := map[ssa.Value]bool{}
				for _, bnd := range []ssa.Value{sl.Low, sl.High, sl.Max} {
					if bnd != nil {
						for r := range roots(bnd) {
							rs[r] = true
						}
					}
				}
				if len(rs) == 0 {
					continue
				}
				n++
				key := core.FuncName(fn) + sprintf("/slice#%d", n)
				field := ""
				if ld, ok := sl.X.(*ssa.UnOp); ok && ld.Op == token.MUL {
					if fa, ok := ld.X.(*ssa.FieldAddr); ok {
						field = fieldNameOnly(fa.X.Type(), fa.Field)
					}
				}
				covered := field != ""
				for r := range rs {
					if !sized[field][r] {
						covered = false
					}
				}
				if covered {
					c.R.Ok(rule, key, cfg, p.Pos(sl.Pos()), "the buffer field "+field+" is sized from the same header field")
					continue
				}
				// a comparison of a bound with len/cap of the sliced value on every path
				edges := core.CondEdges(fn, false, func(cond ssa.Value) (bool, bool) {
					bo, ok := cond.(*ssa.BinOp)
					if !ok {
						return false, false
					}
					isLen := func(v ssa.Value) bool {
						cl, ok := v.(*ssa.Call)
						if !ok {
							return false
						}
						bi, ok := cl.Call.Value.(*ssa.Builtin)
						return ok && (bi.Name() == "len" || bi.Name() == "cap")
					}
					dep := func(v ssa.Value) bool {
						for r := range roots(v) {
							if rs[r] {
								return true
							}
						}
						return false
					}
					switch {
					case dep(bo.X) && isLen(bo.Y):
						switch bo.Op {
						case token.GTR, token.GEQ:
							return true, true
						case token.LSS, token.LEQ:
							return false, true
						}
					case dep(bo.Y) && isLen(bo.X):
						switch bo.Op {
						case token.LSS, token.LEQ:
							return true, true
						case token.GTR, token.GEQ:
							return false, true
						}
					}
					return false, false
				})
				if len(edges) > 0 && core.OnlyViaEdges(fn, sl, edges) {
					c.R.Ok(rule, key, cfg, p.Pos(sl.Pos()), "bound compared with the buffer's length first")
					continue
				}
				c.R.Bad(rule, key, cfg, p.Pos(sl.Pos()), sprintf("%s is sliced by a bound read from the frame header, but the buffer was not sized from that header field and no comparison with its length guards the expression: a frame whose announced size exceeds what it carries panics here", orStr(field, sl.X.Name())))
			}
		}
	}
	c.R.Count("slice bounds from frame header fields["+cfg+"]", n)
	c.R.Floor(rule, cfg, n, 1)
}

// ---- C06.reslice-up: a decoder does not extend a column's slice to the announced row count by re-slicing
type resliceSite struct {
	at   *ssa.Slice
	path string
	ok   bool
	w    core.Witness
}

// resliceUpSites: slice expressions of fn (a DecodeColumn) over the receiver's own storage whose upper bound
// derives from the row-count parameter, with the verdict "capacity established on every path".
func resliceUpSites(fn *ssa.Function) []resliceSite {
	var out []resliceSite
	if fn.Blocks == nil || len(fn.Params) < 3 {
		return nil
	}
	rows := fn.Params[len(fn.Params)-1]
	fromRows := func(v ssa.Value) bool {
		return core.DependsOn(v, func(x ssa.Value) bool { return x == ssa.Value(rows) }, false)
	}
	for _, b := range fn.Blocks {
		for _, in := range b.Instrs {
			sl, ok := in.(*ssa.Slice)
			if !ok || sl.High == nil || !fromRows(sl.High) {
				continue
			}
			if _, isStr := sl.X.Type().Underlying().(*types.Basic); isStr {
				continue
			}
			ap := accessPath(sl.X, 0)
			if !strings.HasPrefix(ap, "recv") {
				continue // a buffer returned by the reader, a local
			}
			// High bounded by len of the same storage (x[:min(...)] or an index below len) is not an extension
			if core.DependsOn(sl.High, func(x ssa.Value) bool {
				cl, ok := x.(*ssa.Call)
				if !ok {
					return false
				}
				bi, ok := cl.Call.Value.(*ssa.Builtin)
				return ok && (bi.Name() == "len" || bi.Name() == "min")
			}, false) && !fromRowsOnly(sl.High, rows) {
				continue
			}
			// storage made in this function with exactly this bound
			sameBound := func(v ssa.Value) bool { return stripConv(v) == stripConv(sl.High) }
			madeHere := core.DependsOn(sl.X, func(x ssa.Value) bool {
				y, ok := x.(*ssa.MakeSlice)
				return ok && (sameBound(y.Len) || sameBound(y.Cap))
			}, true)
			isCap := func(v ssa.Value) bool {
				cl, ok := stripConv(v).(*ssa.Call)
				if !ok {
					return false
				}
				bi, ok := cl.Call.Value.(*ssa.Builtin)
				return ok && bi.Name() == "cap" && accessPath(cl.Call.Args[0], 0) == ap
			}
			// edges on which cap(storage) >= a value computed from the row count
			var enough []core.Edge
			for _, bb := range fn.Blocks {
				ifi, ok := bb.Instrs[len(bb.Instrs)-1].(*ssa.If)
				if !ok {
					continue
				}
				bo, ok := ifi.Cond.(*ssa.BinOp)
				if !ok {
					continue
				}
				switch {
				case isCap(bo.X) && fromRows(bo.Y):
					switch bo.Op {
					case token.LSS:
						enough = append(enough, core.Edge{B: bb, Succ: 1})
					case token.GEQ:
						enough = append(enough, core.Edge{B: bb, Succ: 0})
					}
				case isCap(bo.Y) && fromRows(bo.X):
					switch bo.Op {
					case token.GTR:
						enough = append(enough, core.Edge{B: bb, Succ: 1})
					case token.LEQ:
						enough = append(enough, core.Edge{B: bb, Succ: 0})
					}
				}
			}
			// or a store of freshly made storage of exactly this size into the same place
			remade := func(x ssa.Instruction) bool {
				st, ok := x.(*ssa.Store)
				if !ok || accessPath(st.Addr, 0) != ap && "*"+accessPath(st.Addr, 0) != ap {
					return false
				}
				return core.DependsOn(st.Val, func(y ssa.Value) bool {
					mk, ok := y.(*ssa.MakeSlice)
					return ok && (sameBound(mk.Len) || sameBound(mk.Cap))
				}, true) && !core.DependsOn(st.Val, func(y ssa.Value) bool {
					// append(x, make(k)...) keeps x's length: only append to an emptied or nil base counts
					cl, ok := y.(*ssa.Call)
					if !ok {
						return false
					}
					bi, ok := cl.Call.Value.(*ssa.Builtin)
					if !ok || bi.Name() != "append" {
						return false
					}
					_, isSl := cl.Call.Args[0].(*ssa.Slice)
					return !isSl && !core.IsNilConst(cl.Call.Args[0])
				}, true)
			}
			w := core.ReachAvoiding(core.Entry(fn), func(x ssa.Instruction) bool { return x == ssa.Instruction(sl) }, remade, core.WithoutEdges(enough))
			site := resliceSite{at: sl, path: ap, ok: madeHere || len(w) == 0}
			if !site.ok {
				site.w = w[0]
			}
			out = append(out, site)
		}
	}
	return out
}

func ruleResliceUp(c *Ctx, p *core.Program, rule string) {
	c.R.Rule(rule, "in the DecodeColumn methods of package proto, a slice expression over the column's own storage (a receiver field or the receiver itself) whose upper bound derives from the announced row count is reachable only through the edge of a comparison on which cap() of that storage is at least a value computed from the count, or behind a store of freshly made storage of exactly that size into the same place: growing by `x = x[:rows]` relies on spare capacity that a Reset-and-reuse history does not provide (capacity 4 after a 4-row block, 7 rows next: slice bounds out of range); no decoder re-slices upwards today, a fixture pair keeps the recogniser alive")
	cfg := p.Cfg.Name
	n, nf := 0, 0
	for _, fn := range p.Funcs() {
		if pkgOf(fn) == nil || pkgOf(fn).Path() != core.PkgProto || fn.Name() != "DecodeColumn" {
			continue
		}
		if nm := core.RecvNamed2(fn); nm != nil && strings.HasPrefix(nm.Obj().Name(), "verifFixture") {
			continue
		}
		nf++
		for _, s := range resliceUpSites(fn) {
			n++
			key := core.FuncName(fn) + sprintf("/reslice#%d", n)
			if s.ok {
				c.R.Ok(rule, key, cfg, p.Pos(s.at.Pos()), "capacity for the announced count is established on every path (cap test or fresh make of that size)")
			} else {
				c.R.Bad(rule, key, cfg, p.Pos(s.at.Pos()), sprintf("%s is extended to a bound computed from the announced row count by re-slicing, and on some path neither a test cap(%s) >= bound was passed nor storage of that size made: a reused column with less spare capacity panics (slice bounds out of range)", s.path, s.path), p.TrailString(s.w)...)
			}
		}
	}
	c.R.Count("DecodeColumn methods examined for upward re-slices["+cfg+"]", nf)
	c.R.Floor(rule, cfg, nf, 40)
}

// fromRowsOnly: v depends on rows and on no len() call.
func fromRowsOnly(v ssa.Value, rows ssa.Value) bool {
	hasLen := core.DependsOn(v, func(x ssa.Value) bool {
		cl, ok := x.(*ssa.Call)
		if !ok {
			return false
		}
		bi, ok := cl.Call.Value.(*ssa.Builtin)
		return ok && bi.Name() == "len"
	}, false)
	return !hasLen
}

// ---- C06.frame-index: a decompressed frame can be empty
func ruleFrameIndex(c *Ctx, p *core.Program, rule string) {
	c.R.Rule(rule, "in the methods of compress.Reader an element of the data buffer is indexed (data[pos]) only on a path whose last step before it is the edge of a comparison on which pos < len(data) - in particular not straight after readBlock: a checksum-correct frame may decompress to zero bytes (Writer.Compress produces one for an empty payload), Read tolerates that because copy() copies nothing, an index does not (index out of range [0] with length 0); no such index exists today")
	cfg := p.Cfg.Name
	n, nf := 0, 0
	for _, fn := range p.Funcs() {
		rn := core.RecvNamed2(fn)
		if rn == nil || rn.Obj().Name() != "Reader" || pkgOf(fn) == nil || pkgOf(fn).Path() != core.PkgCompress || fn.Blocks == nil {
			continue
		}
		nf++
		inRange := append(core.CondEdges(fn, true, func(cond ssa.Value) (bool, bool) {
			bo, ok := cond.(*ssa.BinOp)
			if !ok {
				return false, false
			}
			isLen := func(v ssa.Value) bool {
				cl, ok := stripConv(v).(*ssa.Call)
				if !ok {
					return false
				}
				bi, ok := cl.Call.Value.(*ssa.Builtin)
				return ok && bi.Name() == "len" && readerField(cl.Call.Args[0]) == "data"
			}
			isPos := func(v ssa.Value) bool { return readerField(stripConv(v)) == "pos" }
			switch {
			case isPos(bo.X) && isLen(bo.Y):
				switch bo.Op {
				case token.LSS:
					return true, true
				case token.GEQ:
					return false, true
				}
			case isLen(bo.X) && isPos(bo.Y):
				switch bo.Op {
				case token.GTR:
					return true, true
				case token.LEQ:
					return false, true
				}
			}
			return false, false
		}))
		for _, b := range fn.Blocks {
			for _, in := range b.Instrs {
				ia, ok := in.(*ssa.IndexAddr)
				if !ok || readerField(ia.X) != "data" {
					continue
				}
				if _, isC := core.ConstInt(ia.Index); isC {
					continue
				}
				n++
				key := core.FuncName(fn) + sprintf("/index#%d", n)
				// reachable from the entry or from a refill without crossing an in-range edge afterwards?
				starts := []core.Point{core.Entry(fn)}
				for _, call := range core.FindCalls(fn, func(f *types.Func) bool { return core.IsMethod(f, core.PkgCompress, "Reader", "readBlock") }) {
					starts = append(starts, core.PointOf(call.(ssa.Instruction)))
				}
				bad := false
				for _, st := range starts {
					if w := core.ReachAvoiding(st, func(x ssa.Instruction) bool { return x == ssa.Instruction(ia) }, nil, core.WithoutEdges(inRange)); len(w) > 0 {
						bad = true
						c.R.Bad(rule, key, cfg, p.Pos(ia.Pos()), "data[pos] can be evaluated without pos < len(data) having been established after the last refill: an empty frame makes it panic", p.TrailString(w[0])...)
						break
					}
				}
				if !bad {
					c.R.Ok(rule, key, cfg, p.Pos(ia.Pos()), "index behind pos < len(data)")
				}
			}
		}
	}
	if n == 0 {
		c.R.Ok(rule, "compress.Reader", cfg, "", sprintf("%d methods examined, none indexes the data buffer", nf)).Trivial = true
	}
	c.R.Count("methods of compress.Reader", nf)
	c.R.Floor(rule, cfg, nf, 2)
}
