package props

import (
	"path/filepath"
	"strings"

	"golang.org/x/tools/go/ssa"

	"chverif/core"
)

// Fixtures: tiny known-bad functions added to package proto through a
// go/packages overlay (nothing is written to /repo). The generic engines must
// flag every one of them on every run, quick or thorough - a rule whose
// expected count on /repo is zero is otherwise unfalsifiable.

const fixtureFile = "proto/zz_verif_fixture.go"

const fixtureSrc = `package proto

import (
	"io"
	"strconv"

	"github.com/go-faster/errors"
)

// E6: error of a read swallowed on EOF before the nil test.
func verifFixtureSwallowEOF(r *Reader) error {
	_, err := r.UInt8()
	if errors.Is(err, io.EOF) {
		return nil
	}
	if err != nil {
		return err
	}
	return nil
}

// E6: error discarded.
func verifFixtureDiscard(r *Reader) error {
	_, _ = r.UInt8()
	return nil
}

// E6: loop left with break on a failed read, then success.
func verifFixtureBreak(r *Reader, n int) error {
	for i := 0; i < n; i++ {
		if _, err := r.UInt8(); err != nil {
			break
		}
	}
	return nil
}

// E6 negative control: correct propagation.
func verifFixtureGood(r *Reader) (uint8, error) {
	v, err := r.UInt8()
	if err != nil {
		return 0, errors.Wrap(err, "read")
	}
	return v, nil
}

// E4: touches bytes that were in the buffer before.
func verifFixtureWholeBuffer(b *Buffer) {
	b.Buf = append(b.Buf, 1, 2)
	for i := range b.Buf {
		b.Buf[i] ^= 0xff
	}
}

// E4: truncates the buffer.
func verifFixtureTruncate(b *Buffer) {
	b.Buf = b.Buf[:0]
	b.Buf = append(b.Buf, 1)
}

// E4 negative control: writes only the tail it appended.
func verifFixtureTail(b *Buffer, v []uint16) {
	start := len(b.Buf)
	b.Buf = append(b.Buf, make([]byte, 2*len(v))...)
	for i, x := range v {
		b.Buf[start+2*i] = byte(x)
		b.Buf[start+2*i+1] = byte(x >> 8)
	}
}

// C06.config: a parsed number sizes the decoder's allocation unchecked.
func verifFixtureParsedSize(c *ColFixedStr, s string) error {
	n, err := strconv.Atoi(s)
	if err != nil {
		return err
	}
	c.Size = n
	return nil
}

// C06.config negative control: range-checked.
func verifFixtureParsedSizeChecked(c *ColFixedStr, s string) error {
	n, err := strconv.Atoi(s)
	if err != nil {
		return err
	}
	if n <= 0 || n > 1024 {
		return errors.New("size")
	}
	c.SetSize(n)
	return nil
}

// C06.infer-cache: the remembered type survives a half-done re-configuration.
type verifFixtureCacheBad struct {
	t    ColumnType
	base ColumnType
}

func (e *verifFixtureCacheBad) Infer(t ColumnType) error {
	if t == e.t {
		return nil
	}
	e.base = t.Base()
	if t.Elem() == "" {
		return errors.New("no elements")
	}
	e.t = t
	return nil
}

// C06.infer-cache negative control: the key is dropped before anything else changes.
type verifFixtureCacheGood struct {
	t    ColumnType
	base ColumnType
}

func (e *verifFixtureCacheGood) Infer(t ColumnType) error {
	if t == e.t {
		return nil
	}
	e.t = ""
	e.base = t.Base()
	if t.Elem() == "" {
		return errors.New("no elements")
	}
	e.t = t
	return nil
}

// chain-scratch: a per-row scratch buffer chained by reference and refilled.
func verifFixtureChainScratch(w *Writer, vals []uint64) {
	buf := make([]byte, 10)
	for _, v := range vals {
		buf[0] = byte(v)
		w.ChainWrite(buf[:1])
	}
}

// chain-scratch negative control: a fresh buffer per row.
func verifFixtureChainFresh(w *Writer, vals []uint64) {
	for _, v := range vals {
		buf := make([]byte, 10)
		buf[0] = byte(v)
		w.ChainWrite(buf[:1])
	}
}

// C06.infer-index: a parsed list indexed by the position in the target's own elements.
type verifFixtureIdxBad []Column

func (c verifFixtureIdxBad) Infer(t ColumnType) error {
	elems := []ColumnType{t.Elem()}
	for i, v := range c {
		if s, ok := v.(Inferable); ok {
			if err := s.Infer(elems[i]); err != nil {
				return err
			}
		}
	}
	return nil
}

// C06.infer-index negative control: lengths compared first.
type verifFixtureIdxGood []Column

func (c verifFixtureIdxGood) Infer(t ColumnType) error {
	elems := []ColumnType{t.Elem()}
	if len(elems) != len(c) {
		return errors.New("element count")
	}
	for i, v := range c {
		if s, ok := v.(Inferable); ok {
			if err := s.Infer(elems[i]); err != nil {
				return err
			}
		}
	}
	return nil
}

// C06.data-index: a dense table indexed by a signed raw value behind an upper-bound test only.
func verifFixtureEnumTableBad(raw []Enum8, names []string) []string {
	var out []string
	for _, v := range raw {
		if int(v) >= len(names) {
			return nil
		}
		out = append(out, names[v])
	}
	return out
}

// C06.data-index negative control.
func verifFixtureEnumTableGood(raw []Enum8, names []string) []string {
	var out []string
	for _, v := range raw {
		if v < 0 || int(v) >= len(names) {
			return nil
		}
		out = append(out, names[v])
	}
	return out
}

// C16.counters: a running count kept by Append and Reset, forgotten by DecodeColumn.
type verifFixtureCounted struct {
	Data ColUInt8
	size int
}

func (c *verifFixtureCounted) Append(v uint8) { c.Data = append(c.Data, v); c.size++ }
func (c *verifFixtureCounted) Reset()         { c.Data = c.Data[:0]; c.size = 0 }
func (c *verifFixtureCounted) DecodeColumn(r *Reader, rows int) error {
	return c.Data.DecodeColumn(r, rows)
}

// C16.counters negative control.
type verifFixtureCountedGood struct {
	Data ColUInt8
	size int
}

func (c *verifFixtureCountedGood) Append(v uint8) { c.Data = append(c.Data, v); c.size++ }
func (c *verifFixtureCountedGood) Reset()         { c.Data = c.Data[:0]; c.size = 0 }
func (c *verifFixtureCountedGood) DecodeColumn(r *Reader, rows int) error {
	err := c.Data.DecodeColumn(r, rows)
	c.size = len(c.Data)
	return err
}

// C06.reslice-up: grows the position list by re-slicing to the announced row count.
type verifFixtureResliceBad struct{ Pos []Position }

func (c *verifFixtureResliceBad) DecodeColumn(r *Reader, rows int) error {
	c.Pos = c.Pos[:rows]
	for i := range c.Pos {
		n, err := r.StrLen()
		if err != nil {
			return err
		}
		c.Pos[i] = Position{End: n}
	}
	return nil
}

// C06.reslice-up negative control: capacity checked first.
type verifFixtureResliceGood struct{ Pos []Position }

func (c *verifFixtureResliceGood) DecodeColumn(r *Reader, rows int) error {
	if cap(c.Pos) < rows {
		c.Pos = make([]Position, rows)
	}
	c.Pos = c.Pos[:rows]
	for i := range c.Pos {
		n, err := r.StrLen()
		if err != nil {
			return err
		}
		c.Pos[i] = Position{End: n}
	}
	return nil
}

// C08: interprets a partial read.
func verifFixtureRawRead(r io.Reader, buf []byte) (int, error) {
	n, err := r.Read(buf)
	if err != nil {
		return 0, err
	}
	return int(buf[0]) + n, nil
}
`

const fixtureFileCh = "zz_verif_fixture.go"

const fixtureSrcCh = `package ch

import "net"

// C11.conn-channel: a dialed connection handed over through a channel.
func verifFixtureConnOverChannel(dial func() (net.Conn, error)) chan net.Conn {
	out := make(chan net.Conn, 1)
	go func() {
		conn, err := dial()
		if err == nil {
			out <- conn
		}
	}()
	return out
}
`

// fixtureProgram loads the default configuration with the fixture file overlaid.
func fixtureProgram(c *Ctx) *core.Program {
	path := filepath.Join(c.Repo, fixtureFile)
	ov := map[string][]byte{path: []byte(fixtureSrc), filepath.Join(c.Repo, fixtureFileCh): []byte(fixtureSrcCh)}
	for k, v := range c.Overlay {
		ov[k] = v
	}
	p, err := core.Load(c.Repo, core.CfgDefault, ov)
	if err != nil {
		c.R.Fatalf("fixture load: %v", err)
		return nil
	}
	return p
}

func fixtureFuncs(p *core.Program) map[string]*ssa.Function {
	out := map[string]*ssa.Function{}
	for _, fn := range p.Funcs() {
		if strings.HasPrefix(fn.Name(), "verifFixture") {
			out[fn.Name()] = fn
		}
	}
	return out
}

// runFixtures checks that the engines used by prop flag their fixtures.
func runFixtures(c *Ctx, prop string) {
	if c.Overlay != nil {
		return // inside a mutant run
	}
	type exp struct {
		fn  string
		bad bool
	}
	var e6, e4, raw, conf []exp
	switch prop {
	case "C11", "C13", "C16":
		raw = nil
	case "C06":
		conf = []exp{{"verifFixtureParsedSize", true}, {"verifFixtureParsedSizeChecked", false}}
	case "C07":
		e6 = []exp{{"verifFixtureSwallowEOF", true}, {"verifFixtureDiscard", true}, {"verifFixtureBreak", true}, {"verifFixtureGood", false}}
	case "C01", "C14", "C15":
		e4 = []exp{{"verifFixtureWholeBuffer", true}, {"verifFixtureTruncate", true}, {"verifFixtureTail", false}}
	case "C08":
		raw = []exp{{"verifFixtureRawRead", true}}
	default:
		return
	}
	p := fixtureProgram(c)
	if p == nil {
		return
	}
	fns := fixtureFuncs(p)
	record := func(name, rule string, wantBad, gotBad bool) {
		st := core.SelfTest{Kind: "fixture", Name: name, Rule: rule, OK: wantBad == gotBad}
		st.Expected = map[bool]string{true: "violation", false: "no violation"}[wantBad]
		st.Got = map[bool]string{true: "violation", false: "no violation"}[gotBad]
		c.R.SelfTests = append(c.R.SelfTests, st)
	}
	for _, x := range e6 {
		fn := fns[x.fn]
		if fn == nil {
			record(x.fn, "E6", x.bad, !x.bad)
			continue
		}
		rep := core.NewReport(prop, "quick", 0)
		fc := NewCtx(c.Repo, c.Verif, "quick", rep)
		runErrDisc(fc, p, []*ssa.Function{fn}, errDiscOpts{Rule: "fixture", Class: readerClass(p)})
		got := false
		for _, o := range rep.Obls {
			if o.Verdict != core.Discharged {
				got = true
			}
		}
		record(x.fn, "E6 error discipline", x.bad, got)
	}
	for _, x := range e4 {
		fn := fns[x.fn]
		if fn == nil {
			record(x.fn, "E4", x.bad, !x.bad)
			continue
		}
		viol, _ := analyseBuffer(fn)
		record(x.fn, "E4 append-only buffer", x.bad, len(viol) > 0)
	}
	if len(conf) > 0 {
		fields := configFields(p)
		setters := configSetters(p, fields)
		bc := newBoundCtx(p)
		for _, x := range conf {
			fn := fns[x.fn]
			if fn == nil {
				record(x.fn, "C06.config", x.bad, !x.bad)
				continue
			}
			sites, checked := parsedConfigStores(bc, fn, fields, setters)
			got := len(sites) == 0 // no site found at all counts as a miss for both polarities
			if len(sites) > 0 {
				got = false
				for _, ok := range checked {
					if !ok {
						got = true
					}
				}
			} else {
				got = !x.bad
			}
			record(x.fn, "C06.config parsed configuration", x.bad, got)
		}
	}
	if prop == "C11" || prop == "C13" {
		got := false
		for _, fn := range p.Funcs() {
			if fn.Parent() != nil && strings.HasPrefix(fn.Parent().Name(), "verifFixtureConnOverChannel") || strings.HasPrefix(fn.Name(), "verifFixtureConnOverChannel") {
				if len(connSends(fn)) > 0 {
					got = true
				}
			}
		}
		record("verifFixtureConnOverChannel", "conn-channel", true, got)
	}
	if prop == "C16" {
		for name, want := range map[string]bool{"verifFixtureCounted": true, "verifFixtureCountedGood": false} {
			got := !want
			if nm := p.NamedType(core.PkgProto, name); nm != nil {
				checked, gaps := contentCounterGaps(p, nm)
				got = len(gaps) > 0
				if checked == 0 {
					got = !want
				}
			}
			record(name, "C16.counters", want, got)
		}
	}
	if prop == "C14" || prop == "C16" {
		for name, want := range map[string]bool{"verifFixtureChainScratch": true, "verifFixtureChainFresh": false} {
			fn := fns[name]
			got := false
			if fn != nil {
				_, later := chainScratch(fn)
				for _, l := range later {
					if l != nil {
						got = true
					}
				}
			} else {
				got = !want
			}
			record(name, "chain-scratch", want, got)
		}
	}
	if prop == "C06" {
		for _, fn := range p.Funcs() {
			nm := core.RecvNamed2(fn)
			if nm == nil || fn.Name() != "Infer" || !strings.HasPrefix(nm.Obj().Name(), "verifFixtureIdx") {
				continue
			}
			_, guarded := inferIndexHits(fn)
			got := len(guarded) == 0 && nm.Obj().Name() == "verifFixtureIdxGood"
			for _, g := range guarded {
				if !g {
					got = true
				}
			}
			if len(guarded) == 0 {
				got = nm.Obj().Name() != "verifFixtureIdxBad" // nothing found: wrong for the bad one
				got = !got
			}
			record(nm.Obj().Name()+".Infer", "C06.infer-index", nm.Obj().Name() == "verifFixtureIdxBad", got)
		}
		for _, fn := range p.Funcs() {
			nm := core.RecvNamed2(fn)
			if nm == nil || fn.Name() != "DecodeColumn" || !strings.HasPrefix(nm.Obj().Name(), "verifFixtureReslice") {
				continue
			}
			sites := resliceUpSites(fn)
			got := false
			for _, s := range sites {
				if !s.ok {
					got = true
				}
			}
			want := nm.Obj().Name() == "verifFixtureResliceBad"
			if len(sites) == 0 {
				got = !want
			}
			record(nm.Obj().Name()+".DecodeColumn", "C06.reslice-up", want, got)
		}
		for name, want := range map[string]bool{"verifFixtureEnumTableBad": true, "verifFixtureEnumTableGood": false} {
			got := !want
			if fn := fns[name]; fn != nil {
				sites := dataIndexSites(fn)
				got = false
				for _, s := range sites {
					if !s.okUp || !s.okLo {
						got = true
					}
				}
				if len(sites) == 0 {
					got = !want
				}
			}
			record(name, "C06.data-index", want, got)
		}
		for _, fn := range p.Funcs() {
			nm := core.RecvNamed2(fn)
			if nm == nil || fn.Name() != "Infer" || !strings.HasPrefix(nm.Obj().Name(), "verifFixtureCache") {
				continue
			}
			_, leaks := inferCacheLeaks(fn)
			record(nm.Obj().Name()+".Infer", "C06.infer-cache", nm.Obj().Name() == "verifFixtureCacheBad", len(leaks) > 0)
		}
	}
	for _, x := range raw {
		fn := fns[x.fn]
		if fn == nil {
			record(x.fn, "C08.readfull", x.bad, !x.bad)
			continue
		}
		got := false
		for _, call := range core.Calls(fn) {
			if isReadMethod(core.CalleeFunc(call)) {
				got = true
			}
		}
		record(x.fn, "C08.readfull who-may-call", x.bad, got)
	}
}
