package props

import (
	"go/constant"
	"go/token"
	"go/types"
	"sort"
	"strings"

	"golang.org/x/tools/go/ssa"

	"chverif/core"
)

func init() { register("C05", runC05) }

func readerField(v ssa.Value) string {
	switch x := v.(type) {
	case *ssa.FieldAddr:
		if core.IsNamed(x.X.Type(), core.PkgCompress, "Reader") {
			return fieldNameOnly(x.X.Type(), x.Field)
		}
	case *ssa.UnOp:
		if x.Op == token.MUL {
			return readerField(x.X)
		}
	}
	return ""
}

func isLEUint(name string) func(*types.Func) bool {
	return func(f *types.Func) bool {
		return f.Name() == name && f.Pkg() != nil && f.Pkg().Path() == "encoding/binary"
	}
}

// sliceConsts collects "lo:hi" constants of slices of a buffer that feed calls
// satisfying pred, plus constant indexes.
func offsetsUsed(fn *ssa.Function) []string {
	set := map[string]bool{}
	for _, b := range fn.Blocks {
		for _, in := range b.Instrs {
			switch x := in.(type) {
			case *ssa.Slice:
				lo, hi := "", ""
				if x.Low != nil {
					if k, ok := core.ConstInt(x.Low); ok {
						lo = sprintf("%d", k)
					} else {
						continue
					}
				}
				if x.High != nil {
					if k, ok := core.ConstInt(x.High); ok {
						hi = sprintf("%d", k)
					} else {
						continue
					}
				}
				if lo == "" && hi == "" {
					continue
				}
				// only slices handed to encoding/binary or the hash
				for _, r := range *x.Referrers() {
					if cl, ok := r.(*ssa.Call); ok {
						if f := core.CalleeFunc(cl); f != nil && f.Pkg() != nil && (f.Pkg().Path() == "encoding/binary" || f.Pkg().Path() == "github.com/go-faster/city") {
							set[f.Name()[len(f.Name())-min(len(f.Name()), 6):]+"@"+lo+":"+hi] = true
						}
					}
				}
			}
		}
	}
	var out []string
	for k := range set {
		out = append(out, k)
	}
	sort.Strings(out)
	return out
}

func runC05(c *Ctx) {
	p := c.Prog(core.CfgDefault)
	if p == nil {
		return
	}
	cfg := p.Cfg.Name
	rb := p.Method(core.PkgCompress, "Reader", "readBlock")
	rd := p.Method(core.PkgCompress, "Reader", "Read")
	wr := p.Method(core.PkgCompress, "Writer", "Compress")
	if !c.must(p, "compress.(*Reader).readBlock / Read, (*Writer).Compress", rb != nil && rd != nil && wr != nil) {
		return
	}
	ruleFreshOutput(c, p, "C05.fresh-output")
	ruleHeaderFieldsIndependent(c, p, "C05.fields-independent")
	ruleCompressionOptionTable(c, p, "C05.option-table")
	ruleNoEarlyDrop(c, p, "C05.no-early-drop")
	ruleCompressInPlace(c, p, "C05.in-place")
	succ := func(fn *ssa.Function) func(ssa.Instruction) bool {
		return func(in ssa.Instruction) bool {
			r, ok := in.(*ssa.Return)
			return ok && defaultSuccess(fn, r)
		}
	}

	// header-derived sizes
	var sizes []ssa.Value
	for _, call := range core.FindCalls(rb, isLEUint("Uint32")) {
		if v, ok := call.(*ssa.Call); ok {
			sizes = append(sizes, v)
		}
	}

	ruleFrameBounds(c, p, "C05.bounds")
	rule := ""

	// ---- C05.verify
	rule = "C05.verify"
	c.R.Rule(rule, "the comparison of CityHash128(raw[16:]) with the 16 header bytes is on every path to every success exit of readBlock (no fast path around it), precedes every decompression / copy of the payload, and the hashed region starts at the method byte and runs to the end of the frame")
	var cmpEdgesOK []core.Edge
	func() {
		var hcall *ssa.Call
		for _, hf := range append([]*ssa.Function{rb}, core.StaticReachList(rb)...) {
			if hf == nil || pkgOf(hf) == nil || pkgOf(hf).Path() != core.PkgCompress || hcall != nil {
				continue
			}
			for _, call := range core.Calls(hf) {
				if f := core.CalleeFunc(call); f != nil && core.IsFunc(f, "github.com/go-faster/city", "CH128") {
					hcall, _ = call.(*ssa.Call)
				}
			}
		}
		isHash := func(v ssa.Value) bool {
			return v == ssa.Value(hcall) || core.DependsOnResults(v, func(x ssa.Value) bool { return x == ssa.Value(hcall) })
		}
		if hcall == nil {
			c.R.Bad(rule, core.FuncName(rb), cfg, p.Pos(rb.Pos()), "no checksum is computed over the frame")
			return
		}
		// region
		okRegion := false
		if sl, ok := hcall.Call.Args[0].(*ssa.Slice); ok && sl.High == nil && sl.Low != nil {
			if k, ok := core.ConstInt(sl.Low); ok && k == 16 && readerField(sl.X) == "raw" {
				okRegion = true
			}
		}
		if !okRegion {
			c.R.Bad(rule, core.FuncName(rb)+"/region", cfg, p.Pos(hcall.Pos()), "the checksum does not cover raw[16:] (method byte, both sizes and the whole payload)")
		} else {
			c.R.Ok(rule, core.FuncName(rb)+"/region", cfg, p.Pos(hcall.Pos()), "CH128(raw[16:])")
		}
		cmpEdgesOK = core.CondEdges(rb, false, func(cond ssa.Value) (bool, bool) {
			bo, ok := cond.(*ssa.BinOp)
			if !ok || (bo.Op != token.NEQ && bo.Op != token.EQL) {
				return false, false
			}
			if !isHash(bo.X) && !isHash(bo.Y) {
				return false, false
			}
			return bo.Op == token.NEQ, true // predicate: hashes differ
		})
		if len(cmpEdgesOK) == 0 {
			c.R.Bad(rule, core.FuncName(rb)+"/compare", cfg, p.Pos(hcall.Pos()), "the computed checksum is never compared with the header")
			return
		}
		// every success exit only via the equal edge
		bad := false
		for _, b := range rb.Blocks {
			for _, in := range b.Instrs {
				if !succ(rb)(in) {
					continue
				}
				if !core.OnlyViaEdges(rb, in, cmpEdgesOK) {
					bad = true
					c.R.Bad(rule, core.FuncName(rb)+"/success-exit", cfg, p.Pos(in.Pos()), "readBlock can succeed without having verified the frame checksum (a path around the comparison): an altered frame is accepted silently")
				}
			}
		}
		// nothing but the two length fields is interpreted before the comparison: a test of the method byte
		// ahead of it turns an altered byte into a plain error instead of the corruption error
		for _, b := range rb.Blocks {
			ifi, ok := b.Instrs[len(b.Instrs)-1].(*ssa.If)
			if !ok {
				continue
			}
			usesMethod := core.DependsOn(ifi.Cond, func(x ssa.Value) bool {
				ia, ok := x.(*ssa.IndexAddr)
				if !ok {
					return false
				}
				k, okc := core.ConstInt(ia.Index)
				f := readerField(ia.X)
				return okc && k == 16 && (f == "header" || f == "raw")
			}, false)
			if !usesMethod {
				continue
			}
			if !core.OnlyViaEdges(rb, ifi, cmpEdgesOK) {
				bad = true
				c.R.Bad(rule, core.FuncName(rb)+"/method-before-verify", cfg, p.Pos(ifi.Cond.Pos()), "the method byte is examined before the checksum comparison: a frame whose method byte was altered (length fields intact) is rejected with a plain error, not with the corruption error carrying both checksums")
			}
		}
		// payload consumers only via the equal edge
		for _, call := range core.Calls(rb) {
			f := core.CalleeFunc(call)
			isConsumer := false
			if f != nil && (f.Name() == "UncompressBlock" || f.Name() == "DecodeAll") {
				isConsumer = true
			}
			if bi, ok := call.Common().Value.(*ssa.Builtin); ok && bi.Name() == "copy" && readerField(call.Common().Args[0]) == "data" {
				isConsumer = true
			}
			if !isConsumer {
				continue
			}
			if !core.OnlyViaEdges(rb, call.(ssa.Instruction), cmpEdgesOK) {
				bad = true
				c.R.Bad(rule, core.CallKey(rb, call), cfg, p.Pos(call.Pos()), "the payload is decompressed / copied before its checksum has been verified")
			}
		}
		if !bad {
			c.R.Ok(rule, core.FuncName(rb)+"/compare", cfg, p.Pos(hcall.Pos()), "all success exits and all payload consumers lie behind hGot == CH128(...)")
		}
	}()

	// ---- C05.err
	rule = "C05.err"
	c.R.Rule(rule, "the mismatch edge returns a *CorruptedDataErr whose Actual is the computed hash and whose Reference comes from the header bytes, wrapped so that errors.As finds it; Client.decodeBlock converts it with errors.As and returns the exported *ch.CorruptedDataErr")
	func() {
		okLit := false
		for _, b := range rb.Blocks {
			for _, in := range b.Instrs {
				al, ok := in.(*ssa.Alloc)
				if !ok || !core.IsNamed(al.Type(), core.PkgCompress, "CorruptedDataErr") {
					continue
				}
				var act, ref ssa.Value
				for _, r := range *al.Referrers() {
					fa, ok := r.(*ssa.FieldAddr)
					if !ok {
						continue
					}
					for _, r2 := range *fa.Referrers() {
						if s, ok := r2.(*ssa.Store); ok && s.Addr == fa {
							switch fieldNameOnly(fa.X.Type(), fa.Field) {
							case "Actual":
								act = s.Val
							case "Reference":
								ref = s.Val
							}
						}
					}
				}
				fromHash := func(v ssa.Value) bool {
					return v != nil && core.DependsOnResults(v, func(x ssa.Value) bool {
						_, ok := core.CallTo(x, func(f *types.Func) bool { return core.IsFunc(f, "github.com/go-faster/city", "CH128") })
						return ok
					})
				}
				fromHeader := func(v ssa.Value) bool {
					return v != nil && !fromHash(v) && core.DependsOnResults(v, func(x ssa.Value) bool {
						_, ok := core.CallTo(x, isLEUint("Uint64"))
						return ok
					})
				}
				if fromHash(act) && fromHeader(ref) {
					okLit = true
				} else {
					c.R.Bad(rule, core.FuncName(rb)+"/literal", cfg, p.Pos(al.Pos()), "CorruptedDataErr does not carry (Actual = computed hash, Reference = hash from the header)")
					return
				}
			}
		}
		if okLit {
			c.R.Ok(rule, core.FuncName(rb)+"/literal", cfg, p.Pos(rb.Pos()), "Actual <- CH128, Reference <- header")
		} else {
			c.R.Bad(rule, core.FuncName(rb)+"/literal", cfg, p.Pos(rb.Pos()), "no CorruptedDataErr is produced on the mismatch edge")
		}
		db := p.Method(core.PkgCh, "Client", "decodeBlock")
		if db != nil {
			as := false
			var asFamily []ssa.CallInstruction
			for _, f := range append([]*ssa.Function{db}, core.StaticReachList(db)...) {
				if f != nil && pkgOf(f) != nil && pkgOf(f).Path() == core.PkgCh {
					asFamily = append(asFamily, core.Calls(f)...)
				}
			}
			for _, call := range asFamily {
				if f := core.CalleeFunc(call); f != nil && f.Name() == "As" && len(call.Common().Args) == 2 {
					if strings.Contains(call.Common().Args[1].Type().String(), "interface") {
						as = true
					}
				}
			}
			returnsWhere := func(fn *ssa.Function, pred func(ssa.Value) bool) bool {
				for _, b := range fn.Blocks {
					for _, in := range b.Instrs {
						if r, ok := in.(*ssa.Return); ok {
							if rv := core.ReturnErr(fn, r); rv != nil && chainKeeps(rv, pred, 0) {
								return true
							}
						}
					}
				}
				return false
			}
			isExported := func(v ssa.Value) bool {
				mi, ok := v.(*ssa.MakeInterface)
				return ok && core.IsNamed(mi.X.Type(), core.PkgCh, "CorruptedDataErr")
			}
			exported := returnsWhere(db, isExported)
			if !exported {
				// the conversion may live in a helper whose result decodeBlock returns
				for _, h := range core.StaticReachList(db) {
					if h == nil || h.Blocks == nil || pkgOf(h) == nil || pkgOf(h).Path() != core.PkgCh || !returnsWhere(h, isExported) {
						continue
					}
					if returnsWhere(db, func(v ssa.Value) bool {
						call, ok := v.(*ssa.Call)
						return ok && core.StaticFn(call) == h
					}) {
						exported = true
					}
				}
			}
			// when the exported error is assembled field by field, each field is fed from the field of the same name
			miswired := false
			for _, fn := range append([]*ssa.Function{db}, core.StaticReachList(db)...) {
				if fn == nil || pkgOf(fn) == nil || pkgOf(fn).Path() != core.PkgCh {
					continue
				}
				for _, b := range fn.Blocks {
					for _, in := range b.Instrs {
						st, ok := in.(*ssa.Store)
						if !ok {
							continue
						}
						fa, ok := st.Addr.(*ssa.FieldAddr)
						if !ok || !core.IsNamed(fa.X.Type(), core.PkgCh, "CorruptedDataErr") {
							continue
						}
						fname := fieldNameOnly(fa.X.Type(), fa.Field)
						from := core.FieldOrigin(st.Val, 0)
						if !strings.HasSuffix(from, "CorruptedDataErr."+fname) {
							miswired = true
							c.R.Bad(rule, core.FuncName(fn)+"/field-"+fname, cfg, p.Pos(st.Pos()), sprintf("the exported corruption error's %s is filled from %q, not from the reader's %s: the user no longer gets both checksums (stored and computed)", fname, from, fname))
						}
					}
				}
			}
			if miswired {
				// reported above
			} else if as && exported {
				c.R.Ok(rule, core.FuncName(db), cfg, p.Pos(db.Pos()), "errors.As -> exported *ch.CorruptedDataErr, wrapped")
			} else {
				c.R.Bad(rule, core.FuncName(db), cfg, p.Pos(db.Pos()), "the client does not re-export the corruption error")
			}
		}
	}()

	// ---- C05.state
	rule = "C05.state"
	c.R.Rule(rule, "typestate of the decompressing reader: after any failed frame nothing is left to hand out - on the error edge of readBlock inside Read (or on every failure exit of readBlock itself) the data buffer is truncated to length 0 before returning, so that the next Read refills instead of serving the previous frame again or a zero-filled buffer; readBlock is called only when the current frame is exhausted and pos advances by what copy returned")
	func() {
		isTrunc := func(in ssa.Instruction) bool {
			s, ok := in.(*ssa.Store)
			if !ok || readerField(s.Addr) != "data" {
				return false
			}
			if core.IsNilConst(s.Val) {
				return true
			}
			if sl, ok := s.Val.(*ssa.Slice); ok && sl.High != nil {
				if k, ok := core.ConstInt(sl.High); ok && k == 0 {
					return true
				}
			}
			return false
		}
		isRB := func(f *types.Func) bool { return core.IsMethod(f, core.PkgCompress, "Reader", "readBlock") }
		// the function that calls readBlock: Read itself, or a wrapper of it that Read calls
		host := rd
		calls := core.FindCalls(rd, isRB)
		var siteInRead ssa.Instruction
		if len(calls) == 1 {
			siteInRead = calls[0].(ssa.Instruction)
		} else if len(calls) == 0 {
			for _, cc := range core.Calls(rd) {
				if sf := core.StaticFn(cc); sf != nil && sf != rb && sf.Blocks != nil && pkgOf(sf) != nil && pkgOf(sf).Path() == core.PkgCompress {
					if hc := core.FindCalls(sf, isRB); len(hc) == 1 {
						host, calls, siteInRead = sf, hc, cc.(ssa.Instruction)
					}
				}
			}
		}
		if len(calls) != 1 {
			c.R.Unk(rule, core.FuncName(rd), cfg, p.Pos(rd.Pos()), sprintf("%d readBlock calls in Read", len(calls)))
			return
		}
		call := calls[0]
		ev := core.ErrValue(call)
		al := core.Aliases(host, ev)
		errEdge := func(b *ssa.BasicBlock, i int) bool {
			if ifi, ok := b.Instrs[len(b.Instrs)-1].(*ssa.If); ok {
				if ns, ok := core.NilTest(ifi, al); ok && ns == i {
					return false
				}
			}
			return true
		}
		inRead := len(core.ReachAvoiding(core.PointOf(call.(ssa.Instruction)), core.IsExit, isTrunc, errEdge)) == 0
		// alternative: every failure exit of readBlock is preceded by a truncation with no later extension
		inBlock := true
		for _, b := range rb.Blocks {
			for _, in := range b.Instrs {
				r, ok := in.(*ssa.Return)
				if !ok || defaultSuccess(rb, r) {
					continue
				}
				// is there a path from entry to this failure exit on which the last store to data is not a truncation?
				w := core.ReachAvoiding(core.Entry(rb), func(x ssa.Instruction) bool { return x == ssa.Instruction(r) }, isTrunc, nil)
				if len(w) > 0 {
					inBlock = false
				}
				// or a non-truncating store after the truncation
				for _, b2 := range rb.Blocks {
					for _, in2 := range b2.Instrs {
						s, ok := in2.(*ssa.Store)
						if ok && readerField(s.Addr) == "data" && !isTrunc(s) {
							if len(core.ReachAvoiding(core.PointOf(s), func(x ssa.Instruction) bool { return x == ssa.Instruction(r) }, isTrunc, nil)) > 0 {
								inBlock = false
							}
						}
					}
				}
			}
		}
		if inRead || inBlock {
			c.R.Ok(rule, core.FuncName(rd)+"/exhausted-on-error", cfg, p.Pos(call.Pos()), sprintf("data is truncated on every failure path (in Read: %v, in readBlock: %v)", inRead, inBlock))
		} else {
			c.R.Bad(rule, core.FuncName(rd)+"/exhausted-on-error", cfg, p.Pos(call.Pos()), "after a failed frame (header/EOF, size, checksum or decompression error) readBlock has already reset pos and sized data from the unverified header, and nothing truncates it: the next Read hands out the previous frame again or zero bytes as if they were verified data")
		}
		// refill only when exhausted
		refill := core.PredEdges(rd, true, func(cond ssa.Value) (bool, bool) {
			bo, ok := cond.(*ssa.BinOp)
			if !ok {
				return false, false
			}
			isPos := func(v ssa.Value) bool {
				return core.DependsOn(v, func(x ssa.Value) bool { return readerField(x) == "pos" }, false)
			}
			isLen := func(v ssa.Value) bool {
				return core.DependsOn(v, func(x ssa.Value) bool {
					cl, ok := x.(*ssa.Call)
					if !ok {
						return false
					}
					bi, ok := cl.Call.Value.(*ssa.Builtin)
					return ok && bi.Name() == "len" && readerField(cl.Call.Args[0]) == "data"
				}, false)
			}
			switch {
			case bo.Op == token.GEQ && isPos(bo.X) && isLen(bo.Y):
				return true, true
			case bo.Op == token.LEQ && isLen(bo.X) && isPos(bo.Y):
				return true, true
			case bo.Op == token.LSS && isPos(bo.X) && isLen(bo.Y):
				return false, true
			case bo.Op == token.GTR && isLen(bo.X) && isPos(bo.Y):
				return false, true
			}
			return false, false
		})
		if len(refill) > 0 && core.OnlyViaEdges(rd, siteInRead, refill) {
			c.R.Ok(rule, core.FuncName(rd)+"/refill", cfg, p.Pos(call.Pos()), "readBlock only under pos >= len(data)")
		} else {
			c.R.Bad(rule, core.FuncName(rd)+"/refill", cfg, p.Pos(call.Pos()), "the next frame can be read while the current one still has unread bytes (or the test is not pos >= len(data)): bytes are dropped")
		}
		// pos += n of copy
		okPos := false
		var posBlocks []*ssa.BasicBlock
		for f := range core.StaticReach(rd, 1) {
			if f != rb && pkgOf(f) != nil && pkgOf(f).Path() == core.PkgCompress {
				posBlocks = append(posBlocks, f.Blocks...)
			}
		}
		for _, b := range posBlocks {
			for _, in := range b.Instrs {
				s, ok := in.(*ssa.Store)
				if !ok || readerField(s.Addr) != "pos" {
					continue
				}
				bo, ok := s.Val.(*ssa.BinOp)
				if ok && bo.Op == token.ADD && core.DependsOn(bo, func(x ssa.Value) bool {
					cl, ok := x.(*ssa.Call)
					if !ok {
						return false
					}
					bi, ok := cl.Call.Value.(*ssa.Builtin)
					return ok && bi.Name() == "copy"
				}, false) {
					okPos = true
				}
			}
		}
		if okPos {
			c.R.Ok(rule, core.FuncName(rd)+"/advance", cfg, p.Pos(rd.Pos()), "pos += copy(p, data[pos:])")
		} else {
			c.R.Bad(rule, core.FuncName(rd)+"/advance", cfg, p.Pos(rd.Pos()), "pos does not advance by the number of bytes copied")
		}
	}()

	// ---- C05.cursor
	rule = "C05.cursor"
	c.R.Rule(rule, "bytes leave the decompressing reader only from the unread part of the current frame: in every method of compress.Reader outside the frame-filling code, each use of the data buffer is a length query, a truncation, or a slice whose lower bound is the read position - handing out data (or data[:n]) from an entry point other than Read after a partial read repeats bytes the caller already consumed")
	func() {
		fill := map[*ssa.Function]bool{rb: true}
		for _, cc := range core.Calls(rb) {
			if sf := core.StaticFn(cc); sf != nil && pkgOf(sf) != nil && pkgOf(sf).Path() == core.PkgCompress {
				fill[sf] = true
			}
		}
		n := 0
		for _, fn := range p.Funcs() {
			if fn.Blocks == nil || fill[fn] || pkgOf(fn) == nil || pkgOf(fn).Path() != core.PkgCompress {
				continue
			}
			if nm := core.RecvNamed2(fn); nm == nil || nm.Obj().Name() != "Reader" {
				continue
			}
			for _, b := range fn.Blocks {
				for _, in := range b.Instrs {
					ld, ok := in.(*ssa.UnOp)
					if !ok || ld.Op != token.MUL || readerField(ld) != "data" {
						continue
					}
					for _, ref := range *ld.Referrers() {
						okUse := false
						switch u := ref.(type) {
						case *ssa.Call:
							if bi, ok := u.Call.Value.(*ssa.Builtin); ok && (bi.Name() == "len" || bi.Name() == "cap") {
								okUse = true
							}
						case *ssa.Slice:
							if u.Low != nil && core.DependsOn(u.Low, func(x ssa.Value) bool { return readerField(x) == "pos" }, false) {
								okUse = true
								n++
							}
							if u.High != nil {
								if k, ok := core.ConstInt(u.High); ok && k == 0 {
									okUse = true
								}
							}
						case *ssa.DebugRef:
							okUse = true
						}
						if !okUse {
							c.R.Bad(rule, core.FuncName(fn)+"/data-use", cfg, p.Pos(ref.Pos()), "the data buffer is used from its start (not from the read position) outside the frame-filling code: after a partial Read the already consumed prefix of the frame is delivered again")
						}
					}
				}
			}
		}
		if n == 0 {
			c.R.Unk(rule, "compress.Reader.data", cfg, p.Pos(rd.Pos()), "no data[pos:] hand-out found")
		} else {
			c.R.Ok(rule, "compress.Reader.data", cfg, p.Pos(rd.Pos()), sprintf("%d hand-outs, all from data[pos:]", n))
		}
	}()

	// ---- C05.datalen
	rule = "C05.datalen"
	c.R.Rule(rule, "every frame is decompressed into a buffer of exactly its announced size: on every path from the entry of readBlock to a success exit, Reader.data is stored with a slice whose length is the validated uncompressed-size field itself (append(data[:0], make(n)...), make(n), data[:n]) - a path that keeps the previous, longer buffer lets the block decompressors (which report the real size) succeed and Read then hands out the stale tail of the previous frame")
	func() {
		var cands []ssa.Value
		for _, fs := range frameSizes(rb) {
			cands = append(cands, fs.val)
		}
		isN := func(v ssa.Value) bool {
			if v == nil {
				return false
			}
			for _, cv := range cands {
				if stripConv(v) == stripConv(cv) {
					return true
				}
			}
			return false
		}
		var exact func(v ssa.Value, d int) bool
		exact = func(v ssa.Value, d int) bool {
			if d > 4 {
				return false
			}
			switch x := v.(type) {
			case *ssa.Slice:
				if x.High != nil {
					return isN(x.High)
				}
				if x.Low == nil {
					return exact(x.X, d+1)
				}
			case *ssa.MakeSlice:
				return isN(x.Len)
			case *ssa.Call:
				if bi, ok := x.Call.Value.(*ssa.Builtin); ok && bi.Name() == "append" && len(x.Call.Args) == 2 {
					if sl, ok := x.Call.Args[0].(*ssa.Slice); ok && sl.High != nil {
						if k, okc := core.ConstInt(sl.High); okc && k == 0 {
							return exact(x.Call.Args[1], d+1)
						}
					}
				}
			}
			return false
		}
		sizing := func(in ssa.Instruction) bool {
			st, ok := in.(*ssa.Store)
			return ok && readerField(st.Addr) == "data" && exact(st.Val, 0)
		}
		n := 0
		for _, b := range rb.Blocks {
			for _, in := range b.Instrs {
				if sizing(in) {
					n++
				}
			}
		}
		if n == 0 {
			c.R.Unk(rule, core.FuncName(rb), cfg, p.Pos(rb.Pos()), "no store sizes Reader.data by the uncompressed-size field (anchor lost)")
			return
		}
		w := core.ReachAvoiding(core.Entry(rb), succ(rb), sizing, nil)
		if len(w) > 0 {
			c.R.Bad(rule, core.FuncName(rb), cfg, p.Pos(w[0].At.Pos()), "readBlock can succeed without having sized Reader.data to this frame's uncompressed size: after a larger frame, a smaller one is followed by the stale tail of its predecessor", p.TrailString(w[0])...)
		} else {
			c.R.Ok(rule, core.FuncName(rb), cfg, p.Pos(rb.Pos()), sprintf("%d sizing stores; none avoidable on a success path", n))
		}
	}()

	ruleReaderAlias(c, p, "C05.alias")

	ruleCompressDst(c, p, "C05.dst")
	ruleMethodTable(c, p, "C05.methods")
	ruleCodecLimits(c, p, "C05.codec-limits")
	ruleCompressibleArg(c, p, "C05.compressible")
	ruleCompressibleTable(c, p, "C05.compressible-table")
	ruleValidateBeforeAlloc(c, p, "C05.validate-first")
	ruleBlockEncodePath(c, p, "C05.block-path")

	// ---- C05.frame
	ruleFrameLayout(c, p, "C05.frame", rb, wr)
	ruleReaderSource(c, p, "C05.source")
	ruleReadFull(c, p, "C05.readfull")
	ruleTableLookups(c, p, "C05.tables")
	ruleErrChain(c, p, "C05.chain")
	c.R.Rule("C05.errors", "E6 over package compress: the error of every read (of the source, of readBlock) reaches only failure exits - a Read that has already copied some bytes and then drops the error of the next frame (`return n, nil`) lets the caller continue with the frame after the damaged one: a corrupted middle frame is skipped silently")
	{
		var fns []*ssa.Function
		for _, fn := range p.Funcs() {
			if pkgOf(fn) != nil && pkgOf(fn).Path() == core.PkgCompress && fn.Blocks != nil {
				fns = append(fns, fn)
			}
		}
		nE := runErrDisc(c, p, fns, errDiscOpts{Rule: "C05.errors", Class: readerClass(p)})
		c.R.Floor("C05.errors", cfg, nE, 3)
	}
	c.R.Assumptions = append(c.R.Assumptions,
		"CityHash128 detects single-byte alterations; lz4 / zstd decompress what they compressed (third-party codecs, not analysed)",
		"decided: bounds before allocation, verification before use and on every success path, error content, exhausted-after-failure typestate, refill condition, no aliasing of raw and data, frame layout agreement of writer and reader; not decided: decompress(compress(x)) = x")
}

// ruleFrameLayout (C05.frame / C02.frame): writer and reader agree on the header layout.
func ruleFrameLayout(c *Ctx, p *core.Program, rule string, rb, wr *ssa.Function) {
	c.R.Rule(rule, "E8: the constant offsets at which Writer.Compress stores the method byte, the two sizes and the checksum halves, and the region it hashes, equal those readBlock reads and hashes; the stored compressed size is payload + 9 and the reader subtracts 9; Compress guards the uint32 overflow before storing the size")
	cfg := p.Cfg.Name
	collect := func(root *ssa.Function) []string {
		set := map[string]bool{}
		for f := range core.StaticReach(root, 2) {
			if pkgOf(f) == nil || pkgOf(f).Path() != core.PkgCompress {
				continue
			}
			for _, o := range offsetsUsed(f) {
				set[o] = true
			}
		}
		var out []string
		for o := range set {
			out = append(out, o)
		}
		sort.Strings(out)
		return out
	}
	wo, ro := collect(wr), collect(rb)
	norm := func(xs []string) string {
		// PutUint32@17: <-> Uint32@17: etc: strip the Put prefix differences
		var out []string
		for _, x := range xs {
			x = strings.TrimPrefix(x, "Put")
			x = strings.ReplaceAll(x, "tUint", "Uint")
			out = append(out, strings.ToLower(x))
		}
		sort.Strings(out)
		return strings.Join(out, " ")
	}
	if norm(wo) == norm(ro) && len(wo) >= 4 {
		c.R.Ok(rule, "layout", cfg, p.Pos(wr.Pos()), "writer {"+strings.Join(wo, " ")+"} = reader {"+strings.Join(ro, " ")+"}")
	} else {
		c.R.Bad(rule, "layout", cfg, p.Pos(wr.Pos()), "header offsets differ: writer {"+strings.Join(wo, " ")+"} reader {"+strings.Join(ro, " ")+"}")
	}
	// +9 / -9
	plus, minus := int64(-1), int64(-1)
	var wfns []*ssa.Function
	for f := range core.StaticReach(wr, 2) {
		if pkgOf(f) != nil && pkgOf(f).Path() == core.PkgCompress {
			wfns = append(wfns, f)
		}
	}
	var puts []ssa.CallInstruction
	for _, f := range wfns {
		puts = append(puts, core.FindCalls(f, isLEUint("PutUint32"))...)
	}
	for _, call := range puts {
		core.DependsOn(call.Common().Args[2], func(v ssa.Value) bool {
			if bo, ok := v.(*ssa.BinOp); ok && bo.Op == token.ADD {
				if k, ok := core.ConstInt(bo.Y); ok && k > 0 {
					plus = k
				}
			}
			return false
		}, false)
	}
	var rblocks []*ssa.BasicBlock
	for f := range core.StaticReach(rb, 2) {
		if pkgOf(f) != nil && pkgOf(f).Path() == core.PkgCompress {
			rblocks = append(rblocks, f.Blocks...)
		}
	}
	for _, b := range rblocks {
		for _, in := range b.Instrs {
			if bo, ok := in.(*ssa.BinOp); ok && bo.Op == token.SUB {
				if k, ok := core.ConstInt(bo.Y); ok {
					x := bo.X
					for {
						if cv, ok := x.(*ssa.Convert); ok {
							x = cv.X
							continue
						}
						break
					}
					if _, ok := core.CallTo(x, isLEUint("Uint32")); ok {
						minus = k
					}
				}
			}
		}
	}
	if plus > 0 && plus == minus {
		c.R.Ok(rule, "size-bias", cfg, p.Pos(wr.Pos()), sprintf("writer adds %d, reader subtracts %d", plus, minus))
	} else {
		c.R.Bad(rule, "size-bias", cfg, p.Pos(wr.Pos()), sprintf("writer adds %d to the stored size but the reader subtracts %d", plus, minus))
	}
	// overflow guard dominates the size store
	guard := false
	for _, b := range wr.Blocks {
		if ifi, ok := b.Instrs[len(b.Instrs)-1].(*ssa.If); ok {
			if bo, ok := ifi.Cond.(*ssa.BinOp); ok && bo.Op == token.GTR {
				if cst, ok := bo.Y.(*ssa.Const); ok && cst.Value != nil && cst.Uint64() == 1<<32-1 {
					for _, call := range core.FindCalls(wr, isLEUint("PutUint32")) {
						if b.Dominates(call.Block()) {
							guard = true
						}
					}
					// the size store may live in a helper: the guard must dominate the call of that helper
					for _, call := range core.Calls(wr) {
						if sf := core.StaticFn(call); sf != nil && len(core.FindCalls(sf, isLEUint("PutUint32"))) > 0 && b.Dominates(call.Block()) {
							guard = true
						}
					}
				}
			}
		}
	}
	if guard {
		c.R.Ok(rule, "overflow-guard", cfg, p.Pos(wr.Pos()), "n+9 > MaxUint32 is rejected before the size is stored")
	} else {
		c.R.Bad(rule, "overflow-guard", cfg, p.Pos(wr.Pos()), "the compressed size can overflow uint32 when stored")
	}
}

// ruleCompressDst (C05.dst / C02.dst / C09.dst): the compressor's destination is large enough for every method.
func ruleCompressDst(c *Ctx, p *core.Program, rule string) {
	cfg := p.Cfg.Name
	wr := p.Method(core.PkgCompress, "Writer", "Compress")
	if !c.must(p, "(*compress.Writer).Compress", wr != nil) {
		return
	}
	c.R.Rule(rule, "Writer.Compress sizes its output buffer from lz4.CompressBlockBound(len(src)) plus the header on every path (every method writes into the same buffer): a destination that can be smaller than the bound makes the block compressors report 0 bytes for incompressible input and an undecodable frame is emitted; the compressed length used for the frame comes from the compressor's result")
	func() {
		var sizeOK, found bool
		for _, b := range wr.Blocks {
			for _, in := range b.Instrs {
				ms, ok := in.(*ssa.MakeSlice)
				if !ok {
					continue
				}
				found = true
				isBound := func(v ssa.Value) bool {
					_, ok := core.CallTo(v, func(f *types.Func) bool { return f.Name() == "CompressBlockBound" })
					return ok
				}
				// every phi edge on the way must depend on the bound
				var all func(v ssa.Value, d int) bool
				all = func(v ssa.Value, d int) bool {
					if d > 8 {
						return false
					}
					if ph, ok := v.(*ssa.Phi); ok {
						for _, e := range ph.Edges {
							if !all(e, d+1) {
								return false
							}
						}
						return true
					}
					if bo, ok := v.(*ssa.BinOp); ok && bo.Op == token.ADD {
						return all(bo.X, d+1) || all(bo.Y, d+1)
					}
					return isBound(v)
				}
				sizeOK = all(ms.Len, 0)
			}
		}
		switch {
		case !found:
			c.R.Unk(rule, core.FuncName(wr), cfg, p.Pos(wr.Pos()), "output buffer allocation not found")
		case !sizeOK:
			c.R.Bad(rule, core.FuncName(wr), cfg, p.Pos(wr.Pos()), "the output buffer is not sized by CompressBlockBound(len(src)) on every path: with a smaller destination LZ4/LZ4HC return 0 for incompressible payloads and the frame cannot be decoded")
		default:
			c.R.Ok(rule, core.FuncName(wr), cfg, p.Pos(wr.Pos()), "len(Data) = CompressBlockBound(len(buf)) + header on every path")
		}
	}()

}

// ruleMethodTable (C05.methods / C02.methods): method byte and codec family agree between writer and reader.
func ruleMethodTable(c *Ctx, p *core.Program, rule string) {
	c.R.Rule(rule, "table extraction: the method byte written for each compress.Method (initialiser of methodTable) is the protocol's (None 0x02, LZ4 and LZ4HC 0x82, ZSTD 0x90), and the codec family Writer.Compress uses in `case M` (lz4 / zstd / plain copy, by the package of the callee) is the family readBlock uses in the case of that byte")
	cfg := p.Cfg.Name
	wr := p.Method(core.PkgCompress, "Writer", "Compress")
	rb := p.Method(core.PkgCompress, "Reader", "readBlock")
	if !c.must(p, "compress Writer.Compress / Reader.readBlock", wr != nil && rb != nil) {
		return
	}
	family := func(fn *ssa.Function, blk *ssa.BasicBlock, stop func(*ssa.BasicBlock) bool) string {
		fams := map[string]bool{}
		for _, b := range fn.Blocks {
			if b != blk && !blk.Dominates(b) {
				continue
			}
			if stop != nil && stop(b) {
				continue
			}
			for _, in := range b.Instrs {
				call, ok := in.(ssa.CallInstruction)
				if !ok {
					continue
				}
				if bi, ok := call.Common().Value.(*ssa.Builtin); ok && bi.Name() == "copy" {
					fams["copy"] = true
				}
				if f := core.CalleeFunc(call); f != nil && f.Pkg() != nil {
					switch {
					case strings.Contains(f.Pkg().Path(), "/lz4"):
						fams["lz4"] = true
					case strings.Contains(f.Pkg().Path(), "/zstd"):
						fams["zstd"] = true
					}
				}
			}
		}
		var out []string
		for k := range fams {
			out = append(out, k)
		}
		sort.Strings(out)
		return strings.Join(out, "+")
	}
	// the switch may sit in the function itself or in a helper it calls
	// (a switch of the same selector that only maps it to another constant - Method -> method byte - is
	// the table, not the codec dispatch: candidates are ranked by the number of cases that call a codec)
	holder := func(root *ssa.Function, sel func(ssa.Value) bool) (*ssa.Function, map[int64]*ssa.BasicBlock) {
		score := func(f *ssa.Function, t map[int64]*ssa.BasicBlock) int {
			n := 0
			for _, blk := range t {
				if family(f, blk, nil) != "" {
					n++
				}
			}
			return n
		}
		best, bt := root, switchTable(root, sel)
		bs := score(best, bt)
		for _, f := range core.StaticReachList(root) {
			if f == nil || f.Blocks == nil || pkgOf(f) == nil || pkgOf(f).Path() != core.PkgCompress {
				continue
			}
			t := switchTable(f, sel)
			if sc := score(f, t); sc > bs || sc == bs && (len(t) > len(bt) || len(t) == len(bt) && len(t) > 0 && f.String() < best.String() && best != root) {
				best, bt, bs = f, t, sc
			}
		}
		return best, bt
	}
	wr, wt := holder(wr, func(v ssa.Value) bool { return core.IsNamed(v.Type(), core.PkgCompress, "Method") })
	rb, rt := holder(rb, func(v ssa.Value) bool { return core.IsNamed(v.Type(), core.PkgCompress, "methodEncoding") })
	// the method table initialiser
	tbl := map[int64]int64{}
	if pk := p.Prog.Package(p.Pkgs[core.PkgCompress].Types); pk != nil {
		if init := pk.Func("init"); init != nil {
			for _, b := range init.Blocks {
				for _, in := range b.Instrs {
					mu, ok := in.(*ssa.MapUpdate)
					if !ok || !core.IsNamed(mu.Key.Type(), core.PkgCompress, "Method") {
						continue
					}
					k, ok1 := core.ConstInt(mu.Key)
					v, ok2 := core.ConstInt(mu.Value)
					if ok1 && ok2 {
						tbl[k] = v
					}
				}
			}
		}
	}
	// or a mapping function func(Method) methodEncoding, folded for every method constant
	if len(tbl) == 0 {
		for _, g := range p.Funcs() {
			if pkgOf(g) == nil || pkgOf(g).Path() != core.PkgCompress || g.Blocks == nil || len(g.Params) != 1 || g.Signature.Results().Len() != 1 {
				continue
			}
			if !core.IsNamed(g.Params[0].Type(), core.PkgCompress, "Method") || !core.IsNamed(g.Signature.Results().At(0).Type(), core.PkgCompress, "methodEncoding") {
				continue
			}
			for _, nm := range []string{"None", "LZ4", "LZ4HC", "ZSTD"} {
				if m, ok := constOf(p, core.PkgCompress, nm); ok {
					if v, okf := core.FoldFunc(g, nil, map[int]int64{0: m}); okf {
						tbl[m] = v
					}
				}
			}
		}
	}
	doc := map[string]int64{"None": 0x02, "LZ4": 0x82, "LZ4HC": 0x82, "ZSTD": 0x90}
	n := 0
	for _, nm := range []string{"None", "LZ4", "LZ4HC", "ZSTD"} {
		m, ok := constOf(p, core.PkgCompress, nm)
		if !ok {
			c.R.Unk(rule, nm, cfg, "", "method constant missing")
			continue
		}
		n++
		by, okT := tbl[m]
		wblk, rblk := wt[m], rt[by]
		switch {
		case !okT:
			c.R.Bad(rule, nm, cfg, p.Pos(wr.Pos()), "no method byte for compress."+nm+" in methodTable: frames are written with method byte 0")
		case by != doc[nm]:
			c.R.Bad(rule, nm, cfg, p.Pos(wr.Pos()), sprintf("compress.%s is announced with method byte %#x, the protocol uses %#x", nm, by, doc[nm]))
		case wblk == nil:
			c.R.Bad(rule, nm, cfg, p.Pos(wr.Pos()), "Writer.Compress has no case for compress."+nm+": the frame carries no payload")
		case rblk == nil:
			c.R.Bad(rule, nm, cfg, p.Pos(rb.Pos()), sprintf("readBlock has no case for method byte %#x", by))
		default:
			wf, rf := family(wr, wblk, nil), family(rb, rblk, nil)
			if wf != "" && wf == rf {
				c.R.Ok(rule, nm, cfg, p.Pos(wblk.Instrs[0].Pos()), sprintf("byte %#x, %s on both sides", by, wf))
			} else {
				c.R.Bad(rule, nm, cfg, p.Pos(wblk.Instrs[0].Pos()), sprintf("compress.%s is compressed with [%s] but its method byte %#x is decompressed with [%s]", nm, wf, by, rf))
			}
		}
	}
	c.R.Floor(rule, cfg, n, 4)
}

// noDecrease: v is `checked` itself or derives from it only through conversions and
// additions of non-negative constants, so `checked >= 0` implies `v >= 0`.
func noDecrease(v, checked ssa.Value, d int) bool {
	if v == checked {
		return true
	}
	if d > 6 {
		return false
	}
	switch x := v.(type) {
	case *ssa.Convert:
		return noDecrease(x.X, checked, d+1)
	case *ssa.ChangeType:
		return noDecrease(x.X, checked, d+1)
	case *ssa.BinOp:
		if k, ok := core.ConstInt(x.Y); ok {
			if x.Op == token.ADD && k >= 0 || x.Op == token.SUB && k <= 0 {
				return noDecrease(x.X, checked, d+1)
			}
		}
	case *ssa.Phi:
		for _, e := range x.Edges {
			if !noDecrease(e, checked, d+1) {
				return false
			}
		}
		return len(x.Edges) > 0
	}
	return false
}

// rangeChecksAt: in fn, is the instruction `at` reachable only through the passing edges of an
// upper-bound test (> constant) and of a `< 0` test of a value derived from the wire value sz?
// `used` is the value whose size matters at `at` (the lower-bound test must be on a value that is
// not decreased afterwards). limit is the largest value an upper-bound test lets through.
func rangeChecksAt(fn *ssa.Function, at ssa.Instruction, used, sz ssa.Value) (upperOK, lowerOK bool, limit int64) {
	derived := func(v ssa.Value) bool {
		return core.DependsOn(v, func(x ssa.Value) bool { return x == sz }, false)
	}
	upper := core.CondEdges(fn, false, func(cond ssa.Value) (bool, bool) {
		bo, ok := cond.(*ssa.BinOp)
		if !ok {
			return false, false
		}
		if k, okc := core.ConstInt(bo.Y); okc && k > 0 && derived(bo.X) {
			switch bo.Op {
			case token.GTR, token.LEQ:
				if k > limit {
					limit = k
				}
			case token.GEQ, token.LSS:
				if k-1 > limit {
					limit = k - 1
				}
			}
			switch bo.Op {
			case token.GTR, token.GEQ:
				return true, true
			case token.LEQ, token.LSS:
				return false, true
			}
		}
		return false, false
	})
	lower := core.CondEdges(fn, false, func(cond ssa.Value) (bool, bool) {
		bo, ok := cond.(*ssa.BinOp)
		if !ok {
			return false, false
		}
		if k, okc := core.ConstInt(bo.Y); okc && k == 0 && derived(bo.X) && noDecrease(used, bo.X, 0) {
			switch bo.Op {
			case token.LSS:
				return true, true
			case token.GEQ:
				return false, true
			}
		}
		return false, false
	})
	upperOK = len(upper) > 0 && core.OnlyViaEdges(fn, at, upper)
	lowerOK = len(lower) > 0 && core.OnlyViaEdges(fn, at, lower)
	if upperOK && lowerOK {
		return
	}
	// a range predicate of the package applied to the size with a constant limit (withinLimit(size, max)):
	// the predicate is folded at the boundaries -1, 0, K, K+1 and must hold exactly for 0 and K
	within := core.CondEdges(fn, true, func(cond ssa.Value) (bool, bool) {
		v, pol := core.StripNot(cond)
		cl, ok := v.(*ssa.Call)
		if !ok {
			return false, false
		}
		g := core.StaticFn(cl)
		if g == nil || g.Blocks == nil || g.Pkg != fn.Pkg || len(cl.Call.Args) != 2 {
			return false, false
		}
		si, ki := -1, -1
		var k int64
		for i, a := range cl.Call.Args {
			if kv, okc := core.ConstInt(a); okc {
				ki, k = i, kv
			} else if derived(a) && noDecrease(used, a, 0) {
				si = i
			}
		}
		if si < 0 || ki < 0 || k <= 0 {
			return false, false
		}
		val := func(x int64) int64 {
			r, okf := core.FoldFunc(g, nil, map[int]int64{si: x, ki: k})
			if !okf {
				return -1
			}
			return r
		}
		if val(-1) != 0 || val(0) != 1 || val(k) != 1 || val(k+1) != 0 {
			return false, false
		}
		if k > limit {
			limit = k
		}
		return pol, true
	})
	if len(within) > 0 && core.OnlyViaEdges(fn, at, within) {
		upperOK, lowerOK = true, true
	}
	return
}

// frameSize: a header size as seen in readBlock - read there, or handed back by a helper that
// reads (and possibly validates) it.
type frameSize struct {
	val    ssa.Value     // the value in readBlock (the Uint32 call, or the Extract of the helper's result)
	src    ssa.Value     // the Uint32 call
	helper *ssa.Function // nil when read in readBlock itself
	call   *ssa.Call     // the helper call in readBlock
	idx    int           // result index
}

func frameSizes(rb *ssa.Function) []frameSize {
	var out []frameSize
	for _, call := range core.FindCalls(rb, isLEUint("Uint32")) {
		if v, ok := call.(*ssa.Call); ok {
			out = append(out, frameSize{val: v, src: v})
		}
	}
	for _, cc := range core.Calls(rb) {
		cl, ok := cc.(*ssa.Call)
		g := core.StaticFn(cc)
		if !ok || g == nil || g.Blocks == nil || pkgOf(g) == nil || pkgOf(g).Path() != core.PkgCompress {
			continue
		}
		for _, uc := range core.FindCalls(g, isLEUint("Uint32")) {
			sz, ok := uc.(*ssa.Call)
			if !ok {
				continue
			}
			res := g.Signature.Results()
			for i := 0; i < res.Len(); i++ {
				if b, ok := res.At(i).Type().Underlying().(*types.Basic); !ok || b.Info()&types.IsInteger == 0 {
					continue
				}
				dep := false
				for _, b := range g.Blocks {
					if ret, ok := b.Instrs[len(b.Instrs)-1].(*ssa.Return); ok && len(ret.Results) > i && defaultSuccess(g, ret) {
						if core.DependsOn(ret.Results[i], func(x ssa.Value) bool { return x == ssa.Value(sz) }, false) {
							dep = true
						}
					}
				}
				if !dep {
					continue
				}
				var ex ssa.Value
				for _, r := range *cl.Referrers() {
					if e, ok := r.(*ssa.Extract); ok && e.Index == i {
						ex = e
					}
				}
				if res.Len() == 1 {
					ex = cl
				}
				if ex != nil {
					out = append(out, frameSize{val: ex, src: sz, helper: g, call: cl, idx: i})
				}
			}
		}
	}
	return out
}

// ruleFrameBounds (C05.bounds / C06.frame): header sizes are range-checked before they size an allocation.
func ruleFrameBounds(c *Ctx, p *core.Program, rule string) {
	cfg := p.Cfg.Name
	rb := p.Method(core.PkgCompress, "Reader", "readBlock")
	if !c.must(p, "compress.(*Reader).readBlock", rb != nil) {
		return
	}
	sizes := frameSizes(rb)
	c.R.Rule(rule, "E5 in readBlock: every allocation whose size derives from a header field (both Uint32 fields of the frame header) is reachable only through the false edges of a lower-bound test (< 0) and of an upper-bound test (> constant limit) of that size; the limits do not exceed the documented 128 MiB. When the sizes are read by a helper of package compress, the tests are looked for in the helper (on every path to its success exits, on the value it returns) and the allocation must lie behind the nil edge of the helper's error")
	func() {
		if len(sizes) < 2 {
			c.R.Unk(rule, core.FuncName(rb), cfg, p.Pos(rb.Pos()), sprintf("%d header size fields found, expected 2", len(sizes)))
			return
		}
		nSink := 0
		for _, b := range rb.Blocks {
			for _, in := range b.Instrs {
				ms, ok := in.(*ssa.MakeSlice)
				if !ok {
					continue
				}
				for si, fs := range sizes {
					if !core.DependsOn(ms.Len, func(v ssa.Value) bool { return v == fs.val }, false) {
						continue
					}
					nSink++
					key := sprintf("%s/alloc#%d/size#%d", core.FuncName(rb), nSink, si+1)
					var upperOK, lowerOK bool
					var limit int64
					helperTests := false
					if fs.helper != nil {
						// a helper that only decodes the sizes (no error result) leaves the tests to readBlock
						res := fs.helper.Signature.Results()
						helperTests = res.Len() > 0 && types.Identical(res.At(res.Len()-1).Type(), types.Universe.Lookup("error").Type())
					}
					if fs.helper == nil {
						upperOK, lowerOK, limit = rangeChecksAt(rb, ms, ms.Len, fs.src)
					} else if !helperTests {
						upperOK, lowerOK, limit = rangeChecksAt(rb, ms, ms.Len, fs.val)
					} else {
						upperOK, lowerOK = true, true
						nret := 0
						for _, hb := range fs.helper.Blocks {
							ret, ok := hb.Instrs[len(hb.Instrs)-1].(*ssa.Return)
							if !ok || !defaultSuccess(fs.helper, ret) || len(ret.Results) <= fs.idx {
								continue
							}
							nret++
							u, l, lim := rangeChecksAt(fs.helper, ret, ret.Results[fs.idx], fs.src)
							upperOK, lowerOK = upperOK && u, lowerOK && l
							if lim > limit {
								limit = lim
							}
						}
						// in readBlock: behind the nil edge of the helper's error, and not decreased afterwards
						behind := false
						if ev := core.ErrValue(fs.call); ev != nil {
							al := core.Aliases(rb, ev)
							nilEdges := core.CondEdges(rb, false, func(cond ssa.Value) (bool, bool) {
								x, nonNil, ok := nilCmp(cond)
								if !ok || !al[x] {
									return false, false
								}
								return nonNil, true
							})
							behind = len(nilEdges) > 0 && core.OnlyViaEdges(rb, ms, nilEdges)
						}
						if nret == 0 || !behind {
							upperOK = false
						}
						if !noDecrease(ms.Len, fs.val, 0) {
							lowerOK = false
						}
					}
					switch {
					case !upperOK:
						c.R.Bad(rule, key, cfg, p.Pos(ms.Pos()), "an allocation sized by a frame header field is reachable without an upper-bound check: a corrupted or hostile frame requests up to 4 GiB")
					case !lowerOK:
						c.R.Bad(rule, key, cfg, p.Pos(ms.Pos()), "an allocation sized by a frame header field is reachable without a `< 0` check of the value that is allocated (a check made before a constant is subtracted does not count; the size is int(uint32) minus a constant, and int is 32 bits on the pure-Go targets): make() panics")
					case limit > 128<<20:
						c.R.Bad(rule, key, cfg, p.Pos(ms.Pos()), sprintf("the upper-bound test lets a header size of %d through: the documented limit for frame sizes is 128 MiB (%d)", limit, 128<<20))
					default:
						c.R.Ok(rule, key, cfg, p.Pos(ms.Pos()), sprintf("0 <= size <= %d (documented 128 MiB) on every path to the allocation", limit))
					}
				}
			}
		}
		if nSink < 2 {
			c.R.Unk(rule, core.FuncName(rb)+"/sinks", cfg, p.Pos(rb.Pos()), sprintf("%d header-sized allocations found", nSink))
		}
	}()

}

// ruleCodecLimits: decoder-side resource caps of the third-party codecs are not below the library's own frame limit.
func ruleCodecLimits(c *Ctx, p *core.Program, rule string) {
	c.R.Rule(rule, "configuration of the third-party decoders in package compress: an option that caps what the decoder accepts (zstd.WithDecoderMaxWindow / WithDecoderMaxMemory) is not below the library's own limit for a frame's decompressed size (128 MiB): the encoder side is free to use any window up to the payload size, so a smaller cap rejects valid, checksum-verified frames the library itself produced")
	cfg := p.Cfg.Name
	n := 0
	for _, fn := range p.Funcs() {
		if pkgOf(fn) == nil || pkgOf(fn).Path() != core.PkgCompress {
			continue
		}
		for _, call := range core.Calls(fn) {
			f := core.CalleeFunc(call)
			if f == nil || f.Pkg() == nil || !strings.HasSuffix(f.Pkg().Path(), "/zstd") || !strings.HasPrefix(f.Name(), "WithDecoderMax") {
				continue
			}
			n++
			key := core.CallKey(fn, call)
			k, ok := core.ConstInt(call.Common().Args[0])
			switch {
			case !ok:
				c.R.Unk(rule, key, cfg, p.Pos(call.Pos()), f.Name()+" with a non-constant limit")
			case k < 128<<20:
				c.R.Bad(rule, key, cfg, p.Pos(call.Pos()), sprintf("%s(%d) is below the 128 MiB a frame may legally hold: frames whose encoder window exceeds it fail to decode although their checksum verified", f.Name(), k))
			default:
				c.R.Ok(rule, key, cfg, p.Pos(call.Pos()), sprintf("%s(%d) >= frame limit", f.Name(), k))
			}
		}
	}
	if n == 0 {
		c.R.Ok(rule, "compress", cfg, "", "no decoder-side cap configured").Trivial = true
	}
}

// ---- tables (C05 / C02): lookups in fixed package-level tables are in range
// tableLookups lists the index operations of fn into package-level arrays with a non-constant index,
// and whether each is guarded by an upper-bound test that keeps the index below the table's length.
func tableLookups(fn *ssa.Function) (sites []ssa.Instruction, guarded []bool, lens []int64) {
	for _, b := range fn.Blocks {
		for _, in := range b.Instrs {
			var iaX, iaIndex ssa.Value
			var ia ssa.Instruction
			switch x := in.(type) {
			case *ssa.IndexAddr:
				iaX, iaIndex, ia = x.X, x.Index, x
			case *ssa.Index:
				// indexing an array value loaded from a table
				if u, ok := x.X.(*ssa.UnOp); ok && u.Op == token.MUL {
					iaX, iaIndex, ia = u.X, x.Index, x
				}
			}
			if ia == nil {
				continue
			}
			var tbl ssa.Value
			switch g := iaX.(type) {
			case *ssa.Global:
				tbl = g
			case *ssa.Alloc:
				// a table written as a local array literal: only constant-index stores fill it
				lit := true
				for _, r := range *g.Referrers() {
					if ria, ok := r.(*ssa.IndexAddr); ok && ssa.Instruction(ria) != ia {
						if _, isConst := core.ConstInt(ria.Index); !isConst {
							lit = false
						}
					}
				}
				if lit {
					tbl = g
				}
			}
			if tbl == nil {
				continue
			}
			pt, ok := tbl.Type().Underlying().(*types.Pointer)
			if !ok {
				continue
			}
			at, ok := pt.Elem().Underlying().(*types.Array)
			if !ok {
				continue
			}
			if _, isConst := core.ConstInt(iaIndex); isConst {
				continue
			}
			n := at.Len()
			idx := stripConv(iaIndex)
			// index = base + constant offset
			off := int64(0)
			full := idx
			if bo, okb := idx.(*ssa.BinOp); okb && bo.Op == token.ADD {
				if k, okc := core.ConstInt(bo.Y); okc && k >= 0 {
					idx, off = stripConv(bo.X), k
				}
			}
			n -= off
			var bounded func(v ssa.Value, at ssa.Instruction, d int) bool
			bounded = func(v ssa.Value, at ssa.Instruction, d int) bool {
				v = stripConv(v)
				if d > 4 {
					return false
				}
				if k, okc := core.ConstInt(v); okc {
					return k >= 0 && k < n
				}
				if ph, okp := v.(*ssa.Phi); okp {
					for ei, e := range ph.Edges {
						pred := ph.Block().Preds[ei]
						// the edge into the phi may itself be the passing edge of the bound test
						if ifi, oki := pred.Instrs[len(pred.Instrs)-1].(*ssa.If); oki {
							if bo, okb := ifi.Cond.(*ssa.BinOp); okb && stripConv(bo.X) == stripConv(e) {
								if k, okc := core.ConstInt(bo.Y); okc {
									pass := -1
									switch {
									case bo.Op == token.GEQ && k <= n, bo.Op == token.GTR && k < n:
										pass = 1
									case bo.Op == token.LSS && k <= n, bo.Op == token.LEQ && k < n:
										pass = 0
									}
									if pass >= 0 && pred.Succs[pass] == ph.Block() && pred.Succs[1-pass] != ph.Block() {
										continue
									}
								}
							}
						}
						if !bounded(e, pred.Instrs[len(pred.Instrs)-1], d+1) {
							return false
						}
					}
					return len(ph.Edges) > 0
				}
				upper := core.CondEdges(fn, false, func(cond ssa.Value) (bool, bool) {
					bo, ok := cond.(*ssa.BinOp)
					if !ok {
						return false, false
					}
					if k, okc := core.ConstInt(bo.Y); okc && stripConv(bo.X) == v {
						switch {
						case bo.Op == token.GEQ && k <= n, bo.Op == token.GTR && k < n:
							return true, true
						case bo.Op == token.LSS && k <= n, bo.Op == token.LEQ && k < n:
							return false, true
						}
					}
					// v >= len(table)
					if cl, okc := bo.Y.(*ssa.Call); okc && stripConv(bo.X) == v && off == 0 {
						if bi, okb := cl.Call.Value.(*ssa.Builtin); okb && bi.Name() == "len" {
							switch bo.Op {
							case token.GEQ:
								return true, true
							case token.LSS:
								return false, true
							}
						}
					}
					return false, false
				})
				return len(upper) > 0 && core.OnlyViaEdges(fn, at, upper)
			}
			ok2 := bounded(idx, ia, 0)
			// an index masked or reduced modulo a constant below the length
			if bo, okb := full.(*ssa.BinOp); okb && !ok2 {
				if k, okc := core.ConstInt(bo.Y); okc {
					if bo.Op == token.AND && k < at.Len() || bo.Op == token.REM && k <= at.Len() {
						if b, okt := bo.Type().Underlying().(*types.Basic); okt && (bo.Op == token.AND || b.Info()&types.IsUnsigned != 0) {
							ok2 = true
						}
					}
				}
			}
			// a range loop over the table itself
			if ph, okp := idx.(*ssa.Phi); okp && !ok2 {
				for _, bb := range fn.Blocks {
					if ifi, oki := bb.Instrs[len(bb.Instrs)-1].(*ssa.If); oki {
						if bo, okb := ifi.Cond.(*ssa.BinOp); okb && bo.Op == token.LSS {
							if k, okc := core.ConstInt(bo.Y); okc && k <= n && (bo.X == ssa.Value(ph) || core.DependsOn(bo.X, func(x ssa.Value) bool { return x == ssa.Value(ph) }, false)) && bb.Dominates(ia.Block()) {
								ok2 = true
							}
						}
					}
				}
			}
			sites = append(sites, ia)
			guarded = append(guarded, ok2)
			lens = append(lens, at.Len())
		}
	}
	return
}

func ruleTableLookups(c *Ctx, p *core.Program, rule string) {
	c.R.Rule(rule, "lookups in fixed package-level tables of packages compress and ch (level or method tables) are in range: an index that is not a constant is compared with a constant not above the table's length (or with len of the table) on every path to the lookup, masked below it, or is the index of a loop bounded by it - a level clamped to a maximum larger than the table makes NewWriter panic for the upper part of the documented range")
	cfg := p.Cfg.Name
	n := 0
	for _, fn := range p.Funcs() {
		pk := pkgOf(fn)
		if pk == nil || fn.Blocks == nil || (pk.Path() != core.PkgCompress && pk.Path() != core.PkgCh) || fn.Synthetic != "" {
			continue
		}
		sites, guarded, lens := tableLookups(fn)
		for i, at := range sites {
			n++
			key := sprintf("%s/table#%d", core.FuncName(fn), i+1)
			if guarded[i] {
				c.R.Ok(rule, key, cfg, p.Pos(at.Pos()), sprintf("index bounded below the table length %d", lens[i]))
			} else {
				c.R.Bad(rule, key, cfg, p.Pos(at.Pos()), sprintf("a package-level table of %d entries is indexed by a value that no test bounds below %d: values at the upper end of the accepted range panic (index out of range)", lens[i], lens[i]))
			}
		}
	}
	c.R.Count("table lookups with a non-constant index["+cfg+"]", n)
}

// ---- chain (C05 / C03): errors on the way from the frame reader to the caller keep their chain
func ruleErrChain(c *Ctx, p *core.Program, rule string) {
	c.R.Rule(rule, "the corruption error must stay reachable with errors.As from what Do returns: in packages proto, compress and ch, an error constructor that formats (errors.Errorf / fmt.Errorf) is never handed an error value as an argument unless the constant format wraps it with %w - `Errorf(\"%s: %v\", name, err)` keeps the text and drops the chain, so *compress.CorruptedDataErr from a later frame of a block is no longer re-exported as *ch.CorruptedDataErr")
	cfg := p.Cfg.Name
	n := 0
	errT := types.Universe.Lookup("error").Type()
	for _, fn := range p.Funcs() {
		pk := pkgOf(fn)
		if pk == nil || fn.Blocks == nil || (pk.Path() != core.PkgProto && pk.Path() != core.PkgCompress && pk.Path() != core.PkgCh) {
			continue
		}
		for _, call := range core.Calls(fn) {
			f := core.CalleeFunc(call)
			if f == nil || f.Pkg() == nil || f.Name() != "Errorf" || (f.Pkg().Path() != "fmt" && f.Pkg().Path() != "github.com/go-faster/errors") {
				continue
			}
			args := call.Common().Args
			if len(args) < 2 {
				continue
			}
			hasErr := false
			for _, e := range variadicElems(args[1]) {
				v := e
				if mi, ok := v.(*ssa.MakeInterface); ok {
					v = mi.X
				}
				if ci, ok := v.(*ssa.ChangeInterface); ok {
					v = ci.X
				}
				if types.Identical(v.Type(), errT) {
					hasErr = true
				} else if _, isPtr := v.Type().Underlying().(*types.Pointer); isPtr && types.Implements(v.Type(), errT.Underlying().(*types.Interface)) {
					hasErr = true
				}
			}
			if !hasErr {
				continue
			}
			n++
			key := core.CallKey(fn, call) + "/chain"
			fs, ok := args[0].(*ssa.Const)
			if ok && fs.Value != nil && strings.Contains(constant.StringVal(fs.Value), "%w") {
				c.R.Ok(rule, key, cfg, p.Pos(call.Pos()), "wrapped with %w")
			} else {
				c.R.Bad(rule, key, cfg, p.Pos(call.Pos()), "an error value is formatted into a new error without %w: errors.As / errors.Is no longer reach it (a corrupted frame met while decoding this column is reported as an opaque error)")
			}
		}
	}
	c.R.Count("Errorf calls that are handed an error value["+cfg+"]", n)
}

// ruleFreshOutput (C05): every successful Compress rebuilds the output frame.
func ruleFreshOutput(c *Ctx, p *core.Program, rule string) {
	c.R.Rule(rule, "no success exit of compress.Writer.Compress is reachable from its entry without a store to Writer.Data: the caller appends Data to the connection after every call, so a shortcut that returns nil and leaves Data alone (nothing to compress) re-sends the previous payload's complete, checksum-correct frame in place of the empty one")
	cfg := p.Cfg.Name
	fn := p.Method(core.PkgCompress, "Writer", "Compress")
	if !c.must(p, "compress.Writer.Compress", fn != nil) {
		return
	}
	key := core.FuncName(fn)
	w := core.ReachAvoiding(core.Entry(fn), func(in ssa.Instruction) bool {
		r, ok := in.(*ssa.Return)
		return ok && defaultSuccess(fn, r)
	}, func(in ssa.Instruction) bool {
		st, ok := in.(*ssa.Store)
		if !ok {
			return false
		}
		fa, ok := st.Addr.(*ssa.FieldAddr)
		return ok && fieldNameOnly(fa.X.Type(), fa.Field) == "Data"
	}, nil)
	if len(w) > 0 {
		c.R.Bad(rule, key, cfg, p.Pos(w[0].At.Pos()), "Compress can return nil without having written Writer.Data: the caller sends whatever frame the previous call left there", p.TrailString(w[0])...)
	} else {
		c.R.Ok(rule, key, cfg, p.Pos(fn.Pos()), "every success exit lies behind a store to Data")
	}
}

// ruleHeaderFieldsIndependent (C05): the frame reader assumes no ratio between the two announced sizes.
func ruleHeaderFieldsIndependent(c *Ctx, p *core.Program, rule string) {
	c.R.Rule(rule, "compress.Reader.readBlock rejects a frame on a comparison of two different header fields with each other (data size against raw size) only inside the branch of one compression method: the codecs share no expansion bound - 255:1 is LZ4's, a ZSTD frame of constant data exceeds it a hundredfold - so a plausibility test in front of the method switch refuses valid, checksum-correct frames of another codec")
	cfg := p.Cfg.Name
	fn := p.Method(core.PkgCompress, "Reader", "readBlock")
	if !c.must(p, "compress.Reader.readBlock", fn != nil) {
		return
	}
	roots := func(v ssa.Value) map[ssa.Value]bool {
		out := map[ssa.Value]bool{}
		core.DependsOn(v, func(x ssa.Value) bool {
			if isWireRead(x) {
				out[x] = true
			}
			return false
		}, false)
		return out
	}
	isMethodTest := func(ifi *ssa.If) bool {
		return core.DependsOn(ifi.Cond, func(x ssa.Value) bool {
			if cl, ok := x.(*ssa.Call); ok {
				if f := core.CalleeFunc(cl); f != nil && strings.Contains(strings.ToLower(f.Name()), "method") {
					return true
				}
			}
			if u, ok := x.(*ssa.UnOp); ok && u.Op == token.MUL {
				if ia, ok := u.X.(*ssa.IndexAddr); ok {
					if k, isC := core.ConstInt(ia.Index); isC && k == 16 && core.FieldOrigin(ia.X, 0) == "Reader.header" {
						return true
					}
				}
			}
			return false
		}, true)
	}
	var methodBlocks []*ssa.BasicBlock
	for _, b := range fn.Blocks {
		if ifi, ok := b.Instrs[len(b.Instrs)-1].(*ssa.If); ok && isMethodTest(ifi) {
			methodBlocks = append(methodBlocks, b)
		}
	}
	n := 0
	bad := false
	for _, b := range fn.Blocks {
		ifi, ok := b.Instrs[len(b.Instrs)-1].(*ssa.If)
		if !ok {
			continue
		}
		bo, ok := ifi.Cond.(*ssa.BinOp)
		if !ok {
			continue
		}
		rx, ry := roots(bo.X), roots(bo.Y)
		if len(rx) == 0 || len(ry) == 0 {
			continue
		}
		disjoint := true
		for r := range rx {
			if ry[r] {
				disjoint = false
			}
		}
		if !disjoint {
			continue
		}
		// the stored checksum against the computed one is not a relation between header fields
		if _, isInt := bo.X.Type().Underlying().(*types.Basic); !isInt {
			continue
		}
		n++
		inMethod := false
		for _, mb := range methodBlocks {
			if mb != b && mb.Dominates(b) {
				inMethod = true
			}
		}
		if !inMethod {
			bad = true
			c.R.Bad(rule, core.FuncName(fn)+sprintf("/relation#%d", n), cfg, p.Pos(ifi.Cond.Pos()), "two header fields are compared with each other in front of the method switch: a bound that holds for one codec rejects valid frames of another")
		}
	}
	if !bad {
		c.R.Ok(rule, core.FuncName(fn), cfg, p.Pos(fn.Pos()), sprintf("%d comparisons between header fields, none outside a method branch", n))
	}
}

// ruleCompressionOptionTable (C05): every checksummed option of the client is wired to framed, verified transport.
func ruleCompressionOptionTable(c *Ctx, p *core.Program, rule string) {
	c.R.Rule(rule, "table extraction from the switch on Options.Compression in Connect: for every constant of type ch.Compression the values the two merged variables take (proto.Compression, compress.Method) are folded per case; oracle by name correspondence: CompressionDisabled -> proto.CompressionDisabled; CompressionX -> proto.CompressionEnabled with compress.X - an option documented as `no compression but data has checksums` that is mapped to Disabled makes the server send plain blocks: nothing is framed, nothing verified, an altered byte is decoded into the result")
	cfg := p.Cfg.Name
	cn := p.Func(core.PkgCh, "Connect")
	if !c.must(p, "ch.Connect", cn != nil) {
		return
	}
	isSel := func(v ssa.Value) bool {
		if _, isC := v.(*ssa.Const); isC {
			return false
		}
		return core.IsNamed(v.Type(), core.PkgCh, "Compression")
	}
	// the function that maps the option: Connect itself or a helper it calls (the switch on the option lives there)
	host := cn
	if len(switchTable(cn, isSel)) == 0 {
		for g := range core.StaticReach(cn, 2) {
			if g.Blocks != nil && pkgOf(g) != nil && pkgOf(g).Path() == core.PkgCh && len(switchTable(g, isSel)) > 0 {
				host = g
			}
		}
	}
	if len(switchTable(host, isSel)) == 0 {
		c.R.Unk(rule, "Connect", cfg, p.Pos(cn.Pos()), "no switch on Options.Compression found in Connect or the functions it calls")
		return
	}
	// per constant: prune the host under `option == K` and read off the pair it yields - the merged variables
	// (phis) in Connect, or the values of the one Return that stays reachable in a helper
	valuesFor := func(kv int64) (cv, mv ssa.Value, ok bool) {
		filter := core.FeasibleUnder(host, func(cond ssa.Value) int {
			bo, isB := cond.(*ssa.BinOp)
			if !isB || (bo.Op != token.EQL && bo.Op != token.NEQ) {
				return -1
			}
			var k int64
			var okc bool
			switch {
			case isSel(bo.X):
				k, okc = core.ConstInt(bo.Y)
			case isSel(bo.Y):
				k, okc = core.ConstInt(bo.X)
			}
			if !okc {
				return -1
			}
			if (k == kv) == (bo.Op == token.EQL) {
				return 1
			}
			return 0
		})
		reach := map[*ssa.BasicBlock]bool{host.Blocks[0]: true}
		work := []*ssa.BasicBlock{host.Blocks[0]}
		for len(work) > 0 {
			bb := work[len(work)-1]
			work = work[:len(work)-1]
			for i, sc := range bb.Succs {
				if filter(bb, i) && !reach[sc] {
					reach[sc] = true
					work = append(work, sc)
				}
			}
		}
		var resolve func(v ssa.Value, d int) ssa.Value
		resolve = func(v ssa.Value, d int) ssa.Value {
			if d > 6 {
				return nil
			}
			ph, isPhi := v.(*ssa.Phi)
			if !isPhi {
				return v
			}
			var got ssa.Value
			for i, e := range ph.Edges {
				pb := ph.Block().Preds[i]
				if !reach[pb] {
					continue
				}
				feasible := false
				for j, sc := range pb.Succs {
					if sc == ph.Block() && filter(pb, j) {
						feasible = true
					}
				}
				if !feasible {
					continue
				}
				r := resolve(e, d+1)
				if r == nil {
					return nil
				}
				if got != nil {
					ka, oka := core.ConstInt(got)
					kb, okb := core.ConstInt(r)
					if !oka || !okb || ka != kb {
						return nil
					}
				}
				got = r
			}
			return got
		}
		// a helper: the single reachable return
		if res := host.Signature.Results(); res.Len() == 2 && core.IsNamed(res.At(0).Type(), core.PkgProto, "Compression") && core.IsNamed(res.At(1).Type(), core.PkgCompress, "Method") {
			var rets []*ssa.Return
			for bb := range reach {
				if r, isR := bb.Instrs[len(bb.Instrs)-1].(*ssa.Return); isR {
					rets = append(rets, r)
				}
			}
			if len(rets) != 1 {
				return nil, nil, false
			}
			return resolve(rets[0].Results[0], 0), resolve(rets[0].Results[1], 0), true
		}
		var phiC, phiM *ssa.Phi
		for _, bb := range host.Blocks {
			for _, in := range bb.Instrs {
				ph, isPhi := in.(*ssa.Phi)
				if !isPhi {
					continue
				}
				if core.IsNamed(ph.Type(), core.PkgProto, "Compression") {
					phiC = ph
				}
				if core.IsNamed(ph.Type(), core.PkgCompress, "Method") {
					phiM = ph
				}
			}
		}
		if phiC == nil || phiM == nil {
			return nil, nil, false
		}
		return resolve(phiC, 0), resolve(phiM, 0), true
	}
	scope := p.Pkgs[core.PkgCh].Types.Scope()
	var names []string
	for _, nm := range scope.Names() {
		if k, ok := scope.Lookup(nm).(*types.Const); ok && core.IsNamed(k.Type(), core.PkgCh, "Compression") {
			names = append(names, nm)
		}
	}
	sort.Strings(names)
	n := 0
	for _, nm := range names {
		kv, _ := constOf(p, core.PkgCh, nm)
		key := "option/" + nm
		cv, mv, ok := valuesFor(kv)
		if !ok || cv == nil {
			c.R.Unk(rule, key, cfg, p.Pos(host.Pos()), "case not resolved")
			continue
		}
		n++
		gc, ok1 := core.ConstInt(cv)
		var gm int64
		ok2 := false
		if mv != nil {
			gm, ok2 = core.ConstInt(mv)
		}
		x := strings.TrimPrefix(nm, "Compression")
		if x == "Disabled" {
			want, _ := constOf(p, core.PkgProto, "CompressionDisabled")
			if ok1 && gc == want {
				c.R.Ok(rule, key, cfg, p.Pos(host.Pos()), "-> proto.CompressionDisabled")
			} else {
				c.R.Bad(rule, key, cfg, p.Pos(host.Pos()), "CompressionDisabled does not map to proto.CompressionDisabled")
			}
			continue
		}
		wantC, _ := constOf(p, core.PkgProto, "CompressionEnabled")
		wantM, okm := constOf(p, core.PkgCompress, x)
		switch {
		case !okm:
			c.R.Unk(rule, key, cfg, p.Pos(host.Pos()), "no compress."+x+" constant")
		case !ok1 || !ok2:
			c.R.Unk(rule, key, cfg, p.Pos(host.Pos()), "case values are not constants")
		case gc != wantC:
			c.R.Bad(rule, key, cfg, p.Pos(host.Pos()), sprintf("%s is negotiated as compression value %d, not proto.CompressionEnabled: the server sends unframed blocks and no checksum is verified", nm, gc))
		case gm != wantM:
			c.R.Bad(rule, key, cfg, p.Pos(host.Pos()), sprintf("%s selects compress method %d, not compress.%s", nm, gm, x))
		default:
			c.R.Ok(rule, key, cfg, p.Pos(host.Pos()), "-> proto.CompressionEnabled, compress."+x)
		}
	}
	c.R.Count("Options.Compression constants", n)
	c.R.Floor(rule, cfg, n, 5)
}

// ruleNoEarlyDrop (C05): verified bytes are not thrown away before they were handed out.
func ruleNoEarlyDrop(c *Ctx, p *core.Program, rule string) {
	c.R.Rule(rule, "in compress.Reader.Read a store that empties or drops the data buffer after the copy to the caller (outside the failure handling of readBlock) is reachable only through a comparison that involves the length of the frame's own data (pos against len(data), n against len(data[pos:])): a release keyed on the caller's buffer being full (n == len(p)) discards the rest of a verified frame on the first partial read, and the stream silently continues with the next frame")
	cfg := p.Cfg.Name
	rd := p.Method(core.PkgCompress, "Reader", "Read")
	if !c.must(p, "compress.Reader.Read", rd != nil) {
		return
	}
	var cp ssa.Instruction
	hasCopy := func(fn *ssa.Function) ssa.Instruction {
		for _, call := range core.Calls(fn) {
			if bi, ok := call.Common().Value.(*ssa.Builtin); ok && bi.Name() == "copy" {
				return call.(ssa.Instruction)
			}
		}
		return nil
	}
	cp = hasCopy(rd)
	if cp == nil {
		// the hand-out may live in a helper of the reader: its call sites in Read stand for the copy, and the
		// helper itself is held to the same rule
		for _, call := range core.Calls(rd) {
			g := core.StaticFn(call)
			if g == nil || g.Blocks == nil || pkgOf(g) == nil || pkgOf(g).Path() != core.PkgCompress || hasCopy(g) == nil {
				continue
			}
			cp = call.(ssa.Instruction)
			gcp := hasCopy(g)
			for _, b := range g.Blocks {
				for _, in := range b.Instrs {
					st, ok := in.(*ssa.Store)
					if !ok || readerField(st.Addr) != "data" {
						continue
					}
					if len(core.ReachAvoiding(core.PointOf(gcp), func(x ssa.Instruction) bool { return x == in }, nil, nil)) > 0 {
						c.R.Bad(rule, core.FuncName(g)+"/drop", cfg, p.Pos(st.Pos()), "the helper that hands out the frame's bytes replaces the data buffer after the copy")
						return
					}
				}
			}
		}
	}
	if cp == nil {
		c.R.Unk(rule, core.FuncName(rd), cfg, p.Pos(rd.Pos()), "no copy to the caller's buffer found")
		return
	}
	fromData := func(v ssa.Value) bool {
		return core.DependsOn(v, func(x ssa.Value) bool {
			cl, ok := x.(*ssa.Call)
			if !ok {
				return false
			}
			bi, ok := cl.Call.Value.(*ssa.Builtin)
			if !ok || bi.Name() != "len" {
				return false
			}
			return core.DependsOn(cl.Call.Args[0], func(y ssa.Value) bool { return readerField(y) == "data" || core.FieldOrigin(y, 0) == "Reader.data" }, false)
		}, false)
	}
	drained := append(core.CondEdges(rd, true, func(cond ssa.Value) (bool, bool) {
		bo, ok := cond.(*ssa.BinOp)
		if !ok {
			return false, false
		}
		return true, fromData(bo.X) || fromData(bo.Y)
	}), core.CondEdges(rd, false, func(cond ssa.Value) (bool, bool) {
		bo, ok := cond.(*ssa.BinOp)
		if !ok {
			return false, false
		}
		return true, fromData(bo.X) || fromData(bo.Y)
	})...)
	// only tests made after the copy say something about what is left of the frame
	{
		var after []core.Edge
		for _, e := range drained {
			last := e.B.Instrs[len(e.B.Instrs)-1]
			if e.B == cp.Block() || len(core.ReachAvoiding(core.PointOf(cp), func(x ssa.Instruction) bool { return x == last }, nil, nil)) > 0 {
				after = append(after, e)
			}
		}
		drained = after
	}
	n := 0
	bad := false
	for _, b := range rd.Blocks {
		for _, in := range b.Instrs {
			st, ok := in.(*ssa.Store)
			if !ok || readerField(st.Addr) != "data" {
				continue
			}
			// only stores after the copy
			if len(core.ReachAvoiding(core.PointOf(cp), func(x ssa.Instruction) bool { return x == in }, nil, nil)) == 0 {
				continue
			}
			n++
			if len(drained) == 0 || !core.OnlyViaEdges(rd, st, drained) {
				bad = true
				c.R.Bad(rule, core.FuncName(rd)+sprintf("/drop#%d", n), cfg, p.Pos(st.Pos()), "the data buffer is replaced after the copy without a test of how much of the frame is left: a partial read can discard verified bytes that were not handed out yet")
			}
		}
	}
	if !bad {
		c.R.Ok(rule, core.FuncName(rd), cfg, p.Pos(cp.Pos()), sprintf("%d store(s) to data after the copy, each behind a test of the frame's remaining length", n))
	}
}

// ruleCompressInPlace (C05 / C02): compressing a block in place reads all of it before any frame is written back.
func ruleCompressInPlace(c *Ctx, p *core.Program, rule string) {
	c.R.Rule(rule, "where package ch hands compress.Writer.Compress a slice of the very buffer the finished frame is appended to (the in-place idiom of encodeBlock: data := buf.Buf[start:]; buf.Buf = append(buf.Buf[:start], Data...)), that call is not repeated after such an append within one encoding: a loop that compresses the block chunk by chunk and appends each frame over the region still to be read overwrites the next chunk whenever a frame is larger than its chunk (incompressible data, method None) - the following frame carries damaged bytes under a valid checksum")
	cfg := p.Cfg.Name
	n := 0
	for _, fn := range p.Funcs() {
		if pkgOf(fn) == nil || pkgOf(fn).Path() != core.PkgCh || fn.Blocks == nil {
			continue
		}
		for _, call := range core.FindCalls(fn, func(f *types.Func) bool { return core.IsMethod(f, core.PkgCompress, "Writer", "Compress") }) {
			args := call.Common().Args
			in := args[len(args)-1]
			fromBuf := core.DependsOn(in, func(x ssa.Value) bool {
				sl, ok := x.(*ssa.Slice)
				return ok && core.FieldOrigin(sl.X, 0) == "Buffer.Buf"
			}, false)
			if !fromBuf {
				continue
			}
			n++
			key := core.CallKey(fn, call)
			ci := call.(ssa.Instruction)
			// from the call: an append stored to Buffer.Buf, and from there the call again
			var hit *core.Witness
			for _, b := range fn.Blocks {
				for _, x := range b.Instrs {
					st, ok := x.(*ssa.Store)
					if !ok || !isBufAddr(st.Addr) {
						continue
					}
					if len(core.ReachAvoiding(core.PointOf(ci), func(y ssa.Instruction) bool { return y == x }, nil, nil)) == 0 {
						continue
					}
					if w := core.ReachAvoiding(core.PointOf(x), func(y ssa.Instruction) bool { return y == ci }, nil, nil); len(w) > 0 {
						hit = &w[0]
					}
				}
			}
			if hit != nil {
				c.R.Bad(rule, key, cfg, p.Pos(call.Pos()), "Compress reads a slice of the buffer again after a frame was appended to that buffer: the frame may have overwritten the input of this call", p.TrailString(*hit)...)
			} else {
				c.R.Ok(rule, key, cfg, p.Pos(call.Pos()), "the whole input is compressed before the frame replaces it")
			}
		}
	}
	c.R.Count("in-place Compress calls in package ch", n)
	c.R.Floor(rule, cfg, n, 1)
}

// ruleReaderAlias (C05.alias, C03.alias): the decompressed-data buffer of
// compress.Reader never shares memory with its raw frame buffer.
func ruleReaderAlias(c *Ctx, p *core.Program, rule string) {
	cfg := p.Cfg.Name
	rb := p.Method(core.PkgCompress, "Reader", "readBlock")
	rd := p.Method(core.PkgCompress, "Reader", "Read")
	if !c.must(p, "compress.Reader.readBlock / Read", rb != nil && rd != nil) {
		return
	}
	c.R.Rule(rule, "the decompressed-data buffer never aliases the raw frame buffer: every value stored to Reader.data derives from Reader.data itself (append to data[:0], DecodeAll into data[:0]) and not from Reader.raw - otherwise the next frame is decompressed in place over its own source")
	n := 0
	bad := false
	for _, fn := range []*ssa.Function{rb, rd} {
		for _, b := range fn.Blocks {
			for _, in := range b.Instrs {
				s, ok := in.(*ssa.Store)
				if !ok || readerField(s.Addr) != "data" {
					continue
				}
				n++
				fromRaw := core.DependsOn(s.Val, func(x ssa.Value) bool { return readerField(x) == "raw" }, false)
				// DecodeAll(src, dst): only dst flows to the result
				if cl, ok := s.Val.(*ssa.Call); ok {
					if f := core.CalleeFunc(cl); f != nil && f.Name() == "DecodeAll" {
						dst := cl.Call.Args[len(cl.Call.Args)-1]
						fromRaw = core.DependsOn(dst, func(x ssa.Value) bool { return readerField(x) == "raw" }, false)
					}
				}
				if ap, ok := s.Val.(*ssa.Call); ok {
					if bi, ok := ap.Call.Value.(*ssa.Builtin); ok && bi.Name() == "append" {
						// append copies its second operand: only the base can alias
						fromRaw = core.DependsOn(ap.Call.Args[0], func(x ssa.Value) bool { return readerField(x) == "raw" }, false)
					}
				}
				if fromRaw {
					bad = true
					c.R.Bad(rule, sprintf("%s/store#%d", core.FuncName(fn), n), cfg, p.Pos(s.Pos()), "Reader.data is made to share memory with Reader.raw: a later compressed frame that fits the capacity is decompressed over its own input")
				}
			}
		}
	}
	if !bad {
		c.R.Ok(rule, "compress.Reader.data", cfg, p.Pos(rb.Pos()), sprintf("%d stores, none derived from raw", n))
	}
}
