package core

import (
	"fmt"
	"go/constant"
	"go/token"
	"go/types"
	"strings"

	"golang.org/x/tools/go/ssa"
)

// ---------------------------------------------------------------------------
// callee resolution

// CalleeFunc returns the *types.Func called by c: the static callee's object,
// or the interface method for an invoke; nil for dynamic calls of func values.
func CalleeFunc(c ssa.CallInstruction) *types.Func {
	cc := c.Common()
	if cc.IsInvoke() {
		return cc.Method
	}
	if f := cc.StaticCallee(); f != nil {
		if o, ok := f.Object().(*types.Func); ok {
			return o
		}
		if f.Origin() != nil {
			if o, ok := f.Origin().Object().(*types.Func); ok {
				return o
			}
		}
	}
	return nil
}

// StaticFn returns the statically called SSA function (closures included).
func StaticFn(c ssa.CallInstruction) *ssa.Function {
	cc := c.Common()
	if cc.IsInvoke() {
		return nil
	}
	if f := cc.StaticCallee(); f != nil {
		return f
	}
	// call of a closure value created in this function
	if mc, ok := cc.Value.(*ssa.MakeClosure); ok {
		if f, ok := mc.Fn.(*ssa.Function); ok {
			return f
		}
	}
	return nil
}

// RecvNamed returns the named type (pointer stripped) of f's receiver.
func RecvNamed(f *types.Func) *types.Named {
	sig, ok := f.Type().(*types.Signature)
	if !ok || sig.Recv() == nil {
		return nil
	}
	return NamedOf(sig.Recv().Type())
}

// NamedOf strips pointers and returns the (origin) named type or nil.
func NamedOf(t types.Type) *types.Named {
	for {
		switch x := t.(type) {
		case *types.Pointer:
			t = x.Elem()
			continue
		case *types.Named:
			return x.Origin()
		case *types.Alias:
			t = types.Unalias(x)
			continue
		}
		return nil
	}
}

// IsNamed reports whether t (pointers stripped) is pkgPath.name.
func IsNamed(t types.Type, pkgPath, name string) bool {
	n := NamedOf(t)
	if n == nil || n.Obj().Pkg() == nil {
		return false
	}
	return n.Obj().Pkg().Path() == pkgPath && n.Obj().Name() == name
}

// IsFunc reports whether f is pkgPath.name (package-level function).
func IsFunc(f *types.Func, pkgPath, name string) bool {
	if f == nil || f.Pkg() == nil {
		return false
	}
	if RecvNamed(f) != nil {
		return false
	}
	if sig, ok := f.Type().(*types.Signature); ok && sig.Recv() != nil {
		return false
	}
	return f.Pkg().Path() == pkgPath && f.Name() == name
}

// IsMethod reports whether f is method name of pkgPath.tname (value or pointer
// receiver, generic origin). tname "" matches any receiver type in pkgPath.
func IsMethod(f *types.Func, pkgPath, tname, name string) bool {
	if f == nil || f.Name() != name {
		return false
	}
	n := RecvNamed(f)
	if n == nil {
		// interface method: receiver is the interface type
		sig, ok := f.Type().(*types.Signature)
		if !ok || sig.Recv() == nil {
			return false
		}
		if f.Pkg() == nil || f.Pkg().Path() != pkgPath {
			return false
		}
		return tname == "" || strings.HasSuffix(sig.Recv().Type().String(), "."+tname)
	}
	if n.Obj().Pkg() == nil || n.Obj().Pkg().Path() != pkgPath {
		return false
	}
	return tname == "" || n.Obj().Name() == tname
}

// FuncKey renders a *types.Func as pkg.(Recv).Name.
func FuncKey(f *types.Func) string {
	if f == nil {
		return "<dynamic>"
	}
	pkg := ""
	if f.Pkg() != nil {
		pkg = shortPkg(f.Pkg().Path())
	}
	sig, _ := f.Type().(*types.Signature)
	if sig != nil && sig.Recv() != nil {
		t := sig.Recv().Type()
		ptr := ""
		if pt, ok := t.(*types.Pointer); ok {
			t = pt.Elem()
			ptr = "*"
		}
		name := types.TypeString(t, func(p *types.Package) string { return shortPkg(p.Path()) })
		if n, ok := t.(*types.Named); ok {
			name = n.Obj().Name()
		}
		return fmt.Sprintf("%s.(%s%s).%s", pkg, ptr, name, f.Name())
	}
	return pkg + "." + f.Name()
}

var errorType = types.Universe.Lookup("error").Type()

// ReturnsError reports whether the last result of sig is error and its index.
func ReturnsError(sig *types.Signature) (int, bool) {
	n := sig.Results().Len()
	if n == 0 {
		return 0, false
	}
	if types.Identical(sig.Results().At(n-1).Type(), errorType) {
		return n - 1, true
	}
	return 0, false
}

// IsNilConst reports whether v is the nil constant.
func IsNilConst(v ssa.Value) bool {
	c, ok := v.(*ssa.Const)
	return ok && c.IsNil()
}

// ConstInt returns the int64 value of an integer constant.
func ConstInt(v ssa.Value) (int64, bool) {
	c, ok := v.(*ssa.Const)
	if !ok || c.Value == nil {
		return 0, false
	}
	if c.Value.Kind() != constant.Int {
		return 0, false
	}
	i, ok := constant.Int64Val(c.Value)
	return i, ok
}

// ---------------------------------------------------------------------------
// program points and intra-procedural search

// Point is an instruction position inside a function.
type Point struct {
	B *ssa.BasicBlock
	I int
}

func (p Point) Instr() ssa.Instruction { return p.B.Instrs[p.I] }

// PointOf locates an instruction.
func PointOf(in ssa.Instruction) Point {
	b := in.Block()
	for i, x := range b.Instrs {
		if x == in {
			return Point{b, i}
		}
	}
	panic("instruction not in its block")
}

// Action returned by a visitor during a forward search.
type Action int

const (
	Continue Action = iota // keep going
	Stop                   // this path is satisfied; do not go further along it
	Hit                    // offending instruction reached: record and stop
)

// EdgeFilter decides whether the edge from b to b.Succs[i] may be taken.
type EdgeFilter func(b *ssa.BasicBlock, i int) bool

// Forward explores all paths starting right after start (or at the first
// instruction of block start.B when start.I == -1) and calls visit on each
// instruction reached. It returns the offending instructions together with one
// witness path (list of blocks) for each.
func Forward(start Point, visit func(ssa.Instruction) Action, edge EdgeFilter) []Witness {
	var hits []Witness
	type item struct {
		b    *ssa.BasicBlock
		from int
		prev *trail
	}
	seen := map[*ssa.BasicBlock]bool{}
	var scan func(it item)
	queue := []item{{start.B, start.I + 1, &trail{b: start.B}}}
	scan = func(it item) {
		for i := it.from; i < len(it.b.Instrs); i++ {
			switch visit(it.b.Instrs[i]) {
			case Stop:
				return
			case Hit:
				hits = append(hits, Witness{At: it.b.Instrs[i], Trail: it.prev.list()})
				return
			}
		}
		for si, s := range it.b.Succs {
			if edge != nil && !edge(it.b, si) {
				continue
			}
			if seen[s] {
				continue
			}
			seen[s] = true
			queue = append(queue, item{s, 0, &trail{b: s, prev: it.prev}})
		}
	}
	for len(queue) > 0 {
		it := queue[0]
		queue = queue[1:]
		scan(it)
	}
	return hits
}

type trail struct {
	b    *ssa.BasicBlock
	prev *trail
}

func (t *trail) list() []*ssa.BasicBlock {
	var out []*ssa.BasicBlock
	for x := t; x != nil; x = x.prev {
		out = append([]*ssa.BasicBlock{x.b}, out...)
	}
	return out
}

// Witness is an offending instruction with the block path leading to it.
type Witness struct {
	At    ssa.Instruction
	Trail []*ssa.BasicBlock
}

// TrailString renders a witness path as block comment/positions.
func (p *Program) TrailString(w Witness) []string {
	var out []string
	for _, b := range w.Trail {
		pos := token.NoPos
		for _, in := range b.Instrs {
			if in.Pos().IsValid() {
				pos = in.Pos()
				break
			}
		}
		out = append(out, fmt.Sprintf("block %d (%s) %s", b.Index, b.Comment, p.Pos(pos)))
	}
	out = append(out, fmt.Sprintf("-> %s  at %s", InstrString(w.At), p.Pos(w.At.Pos())))
	return out
}

// InstrString renders an instruction briefly.
func InstrString(in ssa.Instruction) string {
	if v, ok := in.(ssa.Value); ok {
		return v.Name() + " = " + in.String()
	}
	return in.String()
}

// ---------------------------------------------------------------------------
// aliases of a value through cells (allocs) and phis

// Aliases returns the set of values that carry v: v itself, phis having v (or
// an alias) as operand, conversions/ChangeType/MakeInterface of v, and loads of
// a cell reached from a store of an alias without an intervening store.
func Aliases(fn *ssa.Function, v ssa.Value) map[ssa.Value]bool {
	set := map[ssa.Value]bool{v: true}
	changed := true
	for changed {
		changed = false
		for _, b := range fn.Blocks {
			for idx, in := range b.Instrs {
				switch x := in.(type) {
				case *ssa.Phi:
					if set[x] {
						continue
					}
					for _, e := range x.Edges {
						if set[e] {
							set[x] = true
							changed = true
							break
						}
					}
				case *ssa.ChangeType:
					if set[x.X] && !set[x] {
						set[x] = true
						changed = true
					}
				case *ssa.ChangeInterface:
					if set[x.X] && !set[x] {
						set[x] = true
						changed = true
					}
				case *ssa.Store:
					if !set[x.Val] {
						continue
					}
					cell := x.Addr
					// loads reached from this store without another store to cell
					Forward(Point{b, idx}, func(j ssa.Instruction) Action {
						switch y := j.(type) {
						case *ssa.Store:
							if y.Addr == cell {
								return Stop
							}
						case *ssa.UnOp:
							if y.Op == token.MUL && y.X == cell && !set[y] {
								set[y] = true
								changed = true
							}
						}
						return Continue
					}, nil)
				}
			}
		}
	}
	return set
}

// ErrValue returns the SSA value(s) holding the error result of call c within
// its function: the call itself when it has a single result, or the Extract of
// the last component.
func ErrValue(c ssa.CallInstruction) ssa.Value {
	v := c.Value()
	if v == nil {
		return nil // go/defer
	}
	sig := c.Common().Signature()
	idx, ok := ReturnsError(sig)
	if !ok {
		return nil
	}
	if sig.Results().Len() == 1 {
		return v
	}
	for _, r := range *v.Referrers() {
		if e, ok := r.(*ssa.Extract); ok && e.Index == idx {
			return e
		}
	}
	return nil // error component never extracted
}

// NilTest inspects an If instruction: if its condition compares a value in set
// with nil, it returns the index of the successor taken when the value is nil.
func NilTest(ifi *ssa.If, set map[ssa.Value]bool) (nilSucc int, ok bool) {
	bo, isBin := ifi.Cond.(*ssa.BinOp)
	if !isBin {
		return 0, false
	}
	var other ssa.Value
	switch {
	case IsNilConst(bo.Y):
		other = bo.X
	case IsNilConst(bo.X):
		other = bo.Y
	default:
		return 0, false
	}
	if !set[other] {
		return 0, false
	}
	switch bo.Op {
	case token.NEQ:
		return 1, true
	case token.EQL:
		return 0, true
	}
	return 0, false
}

// ResolveCellLoad: when v is a load of a cell that is stored to earlier in the
// same block (named results spilled because of defer), return the stored value.
func ResolveCellLoad(v ssa.Value, at ssa.Instruction) ssa.Value {
	u, ok := v.(*ssa.UnOp)
	if !ok || u.Op != token.MUL {
		return v
	}
	b := at.Block()
	var last ssa.Value
	for _, in := range b.Instrs {
		if in == u {
			break
		}
		if s, ok := in.(*ssa.Store); ok && s.Addr == u.X {
			last = s.Val
		}
	}
	if last != nil {
		return last
	}
	return v
}

// ReturnErr returns the error operand of a Return of fn (resolved through a
// same-block spill), or nil when fn has no error result.
func ReturnErr(fn *ssa.Function, r *ssa.Return) ssa.Value {
	idx, ok := ReturnsError(fn.Signature)
	if !ok || idx >= len(r.Results) {
		return nil
	}
	return ResolveCellLoad(r.Results[idx], r)
}

// IsErrorCtor reports whether v is certainly a non-nil error: the result of
// an errors constructor / wrapper (go-faster/errors Wrap(nil) is non-nil),
// fmt.Errorf, or an interface made from a non-nil pointer / value.
func IsErrorCtor(v ssa.Value) bool {
	switch x := v.(type) {
	case *ssa.Call:
		f := CalleeFunc(x)
		if f == nil || f.Pkg() == nil {
			return false
		}
		switch f.Pkg().Path() {
		case "github.com/go-faster/errors", "errors":
			switch f.Name() {
			case "New", "Errorf", "Wrap", "Wrapf":
				return true
			}
		case "fmt":
			return f.Name() == "Errorf"
		}
	case *ssa.MakeInterface:
		switch x.X.(type) {
		case *ssa.Alloc:
			return true
		}
		if _, ok := x.X.Type().Underlying().(*types.Pointer); !ok {
			return true // a value type boxed into error is non-nil
		}
	case *ssa.Phi:
		for _, e := range x.Edges {
			if e == v {
				continue
			}
			if !IsErrorCtor(e) {
				return false
			}
		}
		return true
	}
	return false
}

// MayBeNilError reports whether the error value v can be the nil constant on
// some incoming edge (a constant nil, or a phi with such an operand).
func MayBeNilError(v ssa.Value, depth int) bool {
	if depth > 6 {
		return false
	}
	switch x := v.(type) {
	case *ssa.Const:
		return x.IsNil()
	case *ssa.Phi:
		for _, e := range x.Edges {
			if e != v && MayBeNilError(e, depth+1) {
				return true
			}
		}
	}
	return false
}

// Calls enumerates call instructions (Call, Defer, Go) of fn in block order.
func Calls(fn *ssa.Function) []ssa.CallInstruction {
	var out []ssa.CallInstruction
	for _, b := range fn.Blocks {
		for _, in := range b.Instrs {
			if c, ok := in.(ssa.CallInstruction); ok {
				out = append(out, c)
			}
		}
	}
	return out
}

// Dominates reports whether instruction a dominates instruction b (same fn).
func Dominates(a, b ssa.Instruction) bool {
	ba, bb := a.Block(), b.Block()
	if ba == bb {
		return PointOf(a).I < PointOf(b).I
	}
	return ba.Dominates(bb)
}

// DependsOn reports whether v data-depends on target through pure operations
// (phi, conversions, arithmetic, field/index loads, extracts, calls' operands
// when throughCalls is set), bounded depth.
func DependsOn(v ssa.Value, target func(ssa.Value) bool, throughCalls bool) bool {
	seen := map[ssa.Value]bool{}
	var rec func(v ssa.Value, d int) bool
	rec = func(v ssa.Value, d int) bool {
		if v == nil || seen[v] || d > 40 {
			return false
		}
		seen[v] = true
		if target(v) {
			return true
		}
		switch x := v.(type) {
		case *ssa.Call:
			if !throughCalls {
				return false
			}
			for _, a := range x.Call.Args {
				if rec(a, d+1) {
					return true
				}
			}
			if x.Call.IsInvoke() || x.Call.StaticCallee() == nil {
				return rec(x.Call.Value, d+1)
			}
			return false
		case *ssa.Alloc:
			// local cell / struct literal: what was stored into it (or its parts)
			var walk func(addr ssa.Value, dd int) bool
			walk = func(addr ssa.Value, dd int) bool {
				if dd > 3 {
					return false
				}
				for _, r := range *addr.Referrers() {
					switch y := r.(type) {
					case *ssa.Store:
						if y.Addr == addr && rec(y.Val, d+1) {
							return true
						}
					case *ssa.FieldAddr:
						if walk(y, dd+1) {
							return true
						}
					case *ssa.IndexAddr:
						if walk(y, dd+1) {
							return true
						}
					}
				}
				return false
			}
			return walk(x, 0)
		case ssa.Instruction:
			for _, op := range x.Operands(nil) {
				if *op != nil && rec(*op, d+1) {
					return true
				}
			}
		}
		return false
	}
	return rec(v, 0)
}

// CallKey gives a stable key for the n-th call to callee inside fn.
func CallKey(fn *ssa.Function, c ssa.CallInstruction) string {
	callee := CalleeFunc(c)
	name := FuncKey(callee)
	if callee == nil {
		name = "dyn:" + strings.TrimPrefix(c.Common().Value.Type().String(), "func")
		if fa := fieldOfCallee(c.Common().Value); fa != "" {
			name = "field:" + fa
		}
	}
	n := 0
	for _, o := range Calls(fn) {
		oc := CalleeFunc(o)
		same := oc == callee
		if callee == nil {
			same = oc == nil && fieldOfCallee(o.Common().Value) == fieldOfCallee(c.Common().Value)
		}
		if same {
			n++
		}
		if o == c {
			break
		}
	}
	return fmt.Sprintf("%s/call#%d:%s", FuncName(fn), n, name)
}

// fieldOfCallee names the struct field a dynamically called func value was
// loaded from ("Query.OnInput"), following phis, or "".
func fieldOfCallee(v ssa.Value) string {
	return FieldOrigin(v, 0)
}

// FieldOrigin returns "Type.Field" when v is (a phi/copy of) a load of a
// struct field, or "".
func FieldOrigin(v ssa.Value, depth int) string {
	if depth > 8 {
		return ""
	}
	switch x := v.(type) {
	case *ssa.UnOp:
		if x.Op == token.MUL {
			if fa, ok := x.X.(*ssa.FieldAddr); ok {
				return fieldName(fa.X.Type(), fa.Field)
			}
			// load of a local cell: find its single store
			if al, ok := x.X.(*ssa.Alloc); ok {
				for _, r := range *al.Referrers() {
					if s, ok := r.(*ssa.Store); ok && s.Addr == al {
						if o := FieldOrigin(s.Val, depth+1); o != "" {
							return o
						}
					}
				}
			}
		}
	case *ssa.Field:
		return fieldName(x.X.Type(), x.Field)
	case *ssa.Phi:
		for _, e := range x.Edges {
			if IsNilConst(e) {
				continue
			}
			if o := FieldOrigin(e, depth+1); o != "" {
				return o
			}
		}
	}
	return ""
}

func fieldName(t types.Type, idx int) string {
	n := NamedOf(t)
	var st *types.Struct
	if n != nil {
		st, _ = n.Underlying().(*types.Struct)
	} else {
		if pt, ok := t.Underlying().(*types.Pointer); ok {
			t = pt.Elem()
		}
		st, _ = t.Underlying().(*types.Struct)
	}
	if st == nil || idx >= st.NumFields() {
		return ""
	}
	if n != nil {
		return n.Obj().Name() + "." + st.Field(idx).Name()
	}
	return "struct." + st.Field(idx).Name()
}

// FoldPredicate constant-folds a loop-free, call-free function for given
// integer values of the receiver's fields (keyed by field name) and returns
// its single result. ok is false as soon as anything outside that fragment
// (a call, a loop, a store, an unknown value) is met.
func FoldPredicate(fn *ssa.Function, fields map[string]int64) (res int64, ok bool) {
	return FoldFunc(fn, fields, nil)
}

var foldDepth int

// FoldFunc is FoldPredicate with given values for (some) parameters, by position.
func FoldFunc(fn *ssa.Function, fields map[string]int64, params map[int]int64) (res int64, ok bool) {
	return FoldFuncLens(fn, fields, params, nil)
}

// FoldFuncLens is FoldFunc with given lengths for (some) slice parameters, by position: len(param) folds.
func FoldFuncLens(fn *ssa.Function, fields map[string]int64, params map[int]int64, lens map[int]int64) (res int64, ok bool) {
	if fn == nil || len(fn.Blocks) == 0 {
		return 0, false
	}
	val := map[ssa.Value]int64{}
	for i, pr := range fn.Params {
		if v, ok := params[i]; ok {
			val[pr] = v
		}
	}
	var get func(v ssa.Value) (int64, bool)
	get = func(v ssa.Value) (int64, bool) {
		if k, ok := ConstInt(v); ok {
			return k, true
		}
		if c, ok := v.(*ssa.Const); ok && c.Value != nil {
			switch c.Value.String() {
			case "true":
				return 1, true
			case "false":
				return 0, true
			}
		}
		x, ok := val[v]
		return x, ok
	}
	b2i := func(b bool) int64 {
		if b {
			return 1
		}
		return 0
	}
	seen := map[*ssa.BasicBlock]bool{}
	var prev *ssa.BasicBlock
	cur := fn.Blocks[0]
	for steps := 0; steps < 64; steps++ {
		if seen[cur] {
			return 0, false
		}
		seen[cur] = true
		var next *ssa.BasicBlock
		for _, in := range cur.Instrs {
			switch x := in.(type) {
			case *ssa.DebugRef:
			case *ssa.FieldAddr, *ssa.Alloc:
			case *ssa.Store:
				// spill of a value receiver into its local copy
				if _, isAlloc := x.Addr.(*ssa.Alloc); !isAlloc {
					return 0, false
				}
			case *ssa.Field:
				name := fieldName(x.X.Type(), x.Field)
				if i := strings.LastIndex(name, "."); i >= 0 {
					name = name[i+1:]
				}
				v, ok := fields[name]
				if !ok {
					return 0, false
				}
				val[x] = v
			case *ssa.UnOp:
				switch x.Op {
				case token.MUL:
					fa, ok := x.X.(*ssa.FieldAddr)
					if !ok {
						return 0, false
					}
					name := fieldName(fa.X.Type(), fa.Field)
					if i := strings.LastIndex(name, "."); i >= 0 {
						name = name[i+1:]
					}
					v, ok := fields[name]
					if !ok {
						return 0, false
					}
					val[x] = v
				case token.NOT:
					v, ok := get(x.X)
					if !ok {
						return 0, false
					}
					val[x] = 1 - v
				default:
					return 0, false
				}
			case *ssa.Convert:
				v, ok := get(x.X)
				if !ok {
					return 0, false
				}
				val[x] = v
			case *ssa.ChangeType:
				v, ok := get(x.X)
				if !ok {
					return 0, false
				}
				val[x] = v
			case *ssa.BinOp:
				a, ok1 := get(x.X)
				b, ok2 := get(x.Y)
				if !ok1 || !ok2 {
					return 0, false
				}
				switch x.Op {
				case token.EQL:
					val[x] = b2i(a == b)
				case token.NEQ:
					val[x] = b2i(a != b)
				case token.LSS:
					val[x] = b2i(a < b)
				case token.LEQ:
					val[x] = b2i(a <= b)
				case token.GTR:
					val[x] = b2i(a > b)
				case token.GEQ:
					val[x] = b2i(a >= b)
				case token.ADD:
					val[x] = a + b
				case token.SUB:
					val[x] = a - b
				case token.MUL:
					val[x] = a * b
				case token.AND:
					val[x] = a & b
				case token.OR:
					val[x] = a | b
				default:
					return 0, false
				}
			case *ssa.Phi:
				found := false
				for i, p := range cur.Preds {
					if p == prev {
						v, ok := get(x.Edges[i])
						if !ok {
							return 0, false
						}
						val[x] = v
						found = true
					}
				}
				if !found {
					return 0, false
				}
			case *ssa.If:
				v, ok := get(x.Cond)
				if !ok {
					return 0, false
				}
				if v != 0 {
					next = cur.Succs[0]
				} else {
					next = cur.Succs[1]
				}
			case *ssa.Jump:
				next = cur.Succs[0]
			case *ssa.Return:
				if len(x.Results) != 1 {
					return 0, false
				}
				return get(x.Results[0])
			case *ssa.Call:
				if bi, isB := x.Call.Value.(*ssa.Builtin); isB && bi.Name() == "len" && len(x.Call.Args) == 1 {
					found := false
					for i, pr := range fn.Params {
						if ssa.Value(pr) == x.Call.Args[0] {
							if l, okl := lens[i]; okl {
								val[x] = l
								found = true
							}
						}
					}
					if !found {
						return 0, false
					}
					continue
				}
				// a tiny pure helper of the same package with foldable arguments
				g := x.Call.StaticCallee()
				if g == nil || g.Pkg != fn.Pkg || foldDepth > 2 {
					return 0, false
				}
				ps := map[int]int64{}
				for i, a := range x.Call.Args {
					v, ok := get(a)
					if !ok {
						return 0, false
					}
					ps[i] = v
				}
				foldDepth++
				v, ok := FoldFunc(g, fields, ps)
				foldDepth--
				if !ok {
					return 0, false
				}
				val[x] = v
			default:
				return 0, false
			}
		}
		if next == nil {
			return 0, false
		}
		prev, cur = cur, next
	}
	return 0, false
}

// DependsOnResults is DependsOn (calls opaque) that additionally looks into
// helpers of the library: a value extracted from the result of a static call
// of a ch-go function depends on whatever the corresponding returned
// expressions of that function depend on (two levels).
func DependsOnResults(v ssa.Value, target func(ssa.Value) bool) bool {
	return dependsOnResults(v, target, 0)
}

func dependsOnResults(v ssa.Value, target func(ssa.Value) bool, depth int) bool {
	return DependsOn(v, func(x ssa.Value) bool {
		if target(x) {
			return true
		}
		if depth >= 2 {
			return false
		}
		var call *ssa.Call
		idx := 0
		switch y := x.(type) {
		case *ssa.Extract:
			call, _ = y.Tuple.(*ssa.Call)
			idx = y.Index
		case *ssa.Call:
			call = y
		}
		if call == nil {
			return false
		}
		g := StaticFn(call)
		if g == nil || g.Blocks == nil || g.Pkg == nil || !strings.HasPrefix(g.Pkg.Pkg.Path(), PkgCh) {
			return false
		}
		for _, b := range g.Blocks {
			ret, ok := b.Instrs[len(b.Instrs)-1].(*ssa.Return)
			if !ok || idx >= len(ret.Results) {
				continue
			}
			if dependsOnResults(ResolveCellLoad(ret.Results[idx], ret), target, depth+1) {
				return true
			}
		}
		return false
	}, false)
}

// RecvNamed2 returns the receiver's named type of a source function, nil for plain functions and closures.
func RecvNamed2(fn *ssa.Function) *types.Named {
	if fn == nil || fn.Signature == nil || fn.Signature.Recv() == nil {
		return nil
	}
	return NamedOf(fn.Signature.Recv().Type())
}

// FwdInvoke is an invocation of an interface method made by fn, directly or
// through a same-package helper that invokes it on one of its parameters
// (`prepareData(c.Keys)` for `c.Keys.(Preparable).Prepare()`): Recv and Args are
// expressed in fn's frame (helper parameters replaced by the call-site arguments).
type FwdInvoke struct {
	Recv  ssa.Value
	Args  []ssa.Value
	At    ssa.Instruction     // the instruction in fn (the invoke or the helper call)
	Inner ssa.CallInstruction // the invoke itself
}

// paramOrigin: the parameter v derives from through interface conversions and type assertions.
func paramOrigin(v ssa.Value) *ssa.Parameter {
	for d := 0; d < 8; d++ {
		switch x := v.(type) {
		case *ssa.Parameter:
			return x
		case *ssa.TypeAssert:
			v = x.X
		case *ssa.Extract:
			v = x.Tuple
		case *ssa.ChangeInterface:
			v = x.X
		case *ssa.MakeInterface:
			v = x.X
		case *ssa.ChangeType:
			v = x.X
		default:
			return nil
		}
	}
	return nil
}

// ForwardedInvokes lists the invocations of interface method `method` made by fn.
func ForwardedInvokes(fn *ssa.Function, method string) []FwdInvoke {
	var out []FwdInvoke
	for _, call := range Calls(fn) {
		cc := call.Common()
		if cc.IsInvoke() {
			if cc.Method.Name() == method {
				out = append(out, FwdInvoke{Recv: cc.Value, Args: cc.Args, At: call.(ssa.Instruction), Inner: call})
			}
			continue
		}
		h := StaticFn(call)
		if h == nil || h.Blocks == nil || h.Pkg == nil || fn.Pkg == nil || h.Pkg != fn.Pkg || h == fn {
			continue
		}
		if _, isDefer := call.(*ssa.Defer); isDefer {
			continue
		}
		idxOf := func(p *ssa.Parameter) int {
			for i, q := range h.Params {
				if q == p {
					return i
				}
			}
			return -1
		}
		for _, ic := range Calls(h) {
			icc := ic.Common()
			if !icc.IsInvoke() || icc.Method.Name() != method {
				continue
			}
			rp := paramOrigin(icc.Value)
			if rp == nil {
				continue
			}
			ri := idxOf(rp)
			if ri < 0 || ri >= len(cc.Args) {
				continue
			}
			args := make([]ssa.Value, len(icc.Args))
			for k, a := range icc.Args {
				args[k] = a
				if ap, ok := a.(*ssa.Parameter); ok {
					if ai := idxOf(ap); ai >= 0 && ai < len(cc.Args) {
						args[k] = cc.Args[ai]
					}
					continue
				}
				// an argument computed inside the helper from exactly one of its parameters
				// (ColumnType(strings.TrimSpace(raw))) stands for the call-site value of that parameter
				dep := -1
				nDep := 0
				for pi, hp := range h.Params {
					hp := hp
					if DependsOn(a, func(v ssa.Value) bool { return v == ssa.Value(hp) }, true) {
						dep = pi
						nDep++
					}
				}
				if nDep == 1 && dep < len(cc.Args) {
					args[k] = cc.Args[dep]
				}
			}
			out = append(out, FwdInvoke{Recv: cc.Args[ri], Args: args, At: call.(ssa.Instruction), Inner: ic})
		}
	}
	return out
}
