package core

import (
	"bufio"
	"encoding/json"
	"fmt"
	"os"
	"path/filepath"
	"sort"
	"strings"
	"time"
)

// Verdict of one obligation.
type Verdict string

const (
	Discharged Verdict = "discharged"
	Violated   Verdict = "violated"
	Undecided  Verdict = "undecided"
)

// Obligation is one instance of a rule on one construct.
type Obligation struct {
	Rule      string   `json:"rule"`      // e.g. C07.errors
	Construct string   `json:"construct"` // stable key: function / call site / field, never a line
	Config    string   `json:"config"`    // build configuration
	Verdict   Verdict  `json:"verdict"`
	Pos       string   `json:"pos,omitempty"`
	Detail    string   `json:"detail,omitempty"`
	Path      []string `json:"path,omitempty"` // offending path (program points), for path rules
	Trivial   bool     `json:"trivial,omitempty"`
}

// Key identifies an obligation across runs and configurations.
func (o *Obligation) Key() string { return o.Rule + " " + o.Construct }

// Report collects the obligations of one property run.
type Report struct {
	Property string
	Tier     string
	Seed     int64
	Start    time.Time

	Obls        []*Obligation
	RuleText    map[string]string // rule -> text
	ruleOrder   []string
	Configs     []string
	Analysed    map[string]int // counters: functions, call sites, ...
	Notes       []string
	Assumptions []string
	Fatal       []string // loader failures, unresolved anchors, panics
	SelfTests   []SelfTest
}

// SelfTest is a fixture or mutant result.
type SelfTest struct {
	Kind     string `json:"kind"` // fixture | mutant | seeded
	Name     string `json:"name"`
	Rule     string `json:"rule"`
	Expected string `json:"expected"`
	Got      string `json:"got"`
	OK       bool   `json:"ok"`
	Skipped  bool   `json:"skipped,omitempty"`
}

func NewReport(prop, tier string, seed int64) *Report {
	return &Report{Property: prop, Tier: tier, Seed: seed, Start: time.Now(),
		RuleText: map[string]string{}, Analysed: map[string]int{}}
}

// Rule registers the text of a rule (shown in evidence).
func (r *Report) Rule(id, text string) {
	if _, ok := r.RuleText[id]; !ok {
		r.ruleOrder = append(r.ruleOrder, id)
	}
	r.RuleText[id] = text
}

func (r *Report) Add(o *Obligation) *Obligation {
	r.Obls = append(r.Obls, o)
	return o
}

// Ok records a discharged obligation.
func (r *Report) Ok(rule, construct, cfg, pos, detail string) *Obligation {
	return r.Add(&Obligation{Rule: rule, Construct: construct, Config: cfg, Verdict: Discharged, Pos: pos, Detail: detail})
}

// Bad records a violated obligation.
func (r *Report) Bad(rule, construct, cfg, pos, detail string, path ...string) *Obligation {
	return r.Add(&Obligation{Rule: rule, Construct: construct, Config: cfg, Verdict: Violated, Pos: pos, Detail: detail, Path: path})
}

// Unk records an undecided obligation (fails the check, diagnosable).
func (r *Report) Unk(rule, construct, cfg, pos, detail string) *Obligation {
	return r.Add(&Obligation{Rule: rule, Construct: construct, Config: cfg, Verdict: Undecided, Pos: pos, Detail: detail})
}

func (r *Report) Fatalf(format string, a ...any) {
	r.Fatal = append(r.Fatal, fmt.Sprintf(format, a...))
}

func (r *Report) Count(k string, n int) { r.Analysed[k] += n }

// Floor fails the check when a population rule matched fewer instances than
// the floor confirmed by hand.
func (r *Report) Floor(rule, cfg string, got, floor int) {
	if got < floor {
		r.Unk(rule, "population", cfg, "", fmt.Sprintf("rule matched %d instances, floor is %d: the rule lost its population (vacuous pass prevented)", got, floor))
	} else {
		o := r.Ok(rule, "population", cfg, "", fmt.Sprintf("%d instances (floor %d)", got, floor))
		o.Trivial = true
	}
}

// ---------------------------------------------------------------------------
// known findings

// Finding is one line of known_findings.txt.
type Finding struct {
	Fixed     bool
	Property  string
	Rule      string
	Construct string
	Text      string
	Commit    string
}

// LoadFindings parses known_findings.txt:
//
//	known: property=C10 rule=C10.packet construct=<key> :: <what fails>
//	fixed: property=C10 <commit> rule=C10.packet construct=<key> :: <what failed>
func LoadFindings(path string) ([]Finding, error) {
	f, err := os.Open(path)
	if err != nil {
		if os.IsNotExist(err) {
			return nil, nil
		}
		return nil, err
	}
	defer f.Close()
	var out []Finding
	sc := bufio.NewScanner(f)
	sc.Buffer(make([]byte, 1<<20), 1<<20)
	for sc.Scan() {
		line := strings.TrimSpace(sc.Text())
		if line == "" || strings.HasPrefix(line, "#") {
			continue
		}
		var fd Finding
		switch {
		case strings.HasPrefix(line, "known:"):
			line = strings.TrimSpace(strings.TrimPrefix(line, "known:"))
		case strings.HasPrefix(line, "fixed:"):
			fd.Fixed = true
			line = strings.TrimSpace(strings.TrimPrefix(line, "fixed:"))
		default:
			return nil, fmt.Errorf("known_findings: bad line %q", line)
		}
		head, text, _ := strings.Cut(line, "::")
		fd.Text = strings.TrimSpace(text)
		// construct= takes the rest of head (keys contain spaces)
		if i := strings.Index(head, "construct="); i >= 0 {
			fd.Construct = strings.TrimSpace(head[i+len("construct="):])
			head = head[:i]
		}
		for _, tok := range strings.Fields(head) {
			k, v, ok := strings.Cut(tok, "=")
			if !ok {
				if fd.Fixed && fd.Commit == "" {
					fd.Commit = tok
				}
				continue
			}
			switch k {
			case "property":
				fd.Property = v
			case "rule":
				fd.Rule = v
			}
		}
		out = append(out, fd)
	}
	return out, sc.Err()
}

// ---------------------------------------------------------------------------
// finishing: evidence, output, exit code

type evidence struct {
	PropertyID  string         `json:"property_id"`
	Tier        string         `json:"tier"`
	Seed        int64          `json:"seed"`
	Level       string         `json:"level"`
	Coverage    map[string]any `json:"coverage"`
	Assumptions []string       `json:"assumptions"`
	WallS       float64        `json:"wall_s"`
	Violations  int            `json:"violations"`
}

// Finish prints the summary, writes evidence and replay files and returns the
// process exit code.
func (r *Report) Finish(verifDir string, findings []Finding) int {
	known := map[string]Finding{}
	for _, f := range findings {
		if !f.Fixed && f.Property == r.Property {
			known[f.Rule+" "+f.Construct] = f
		}
	}
	// merge per key across configs for the distinct counts
	type agg struct {
		first   *Obligation
		worst   Verdict
		configs []string
	}
	byKey := map[string]*agg{}
	var keys []string
	for _, o := range r.Obls {
		a := byKey[o.Key()]
		if a == nil {
			a = &agg{first: o, worst: Discharged}
			byKey[o.Key()] = a
			keys = append(keys, o.Key())
		}
		if o.Verdict != Discharged {
			a.configs = append(a.configs, o.Config)
		}
		if o.Verdict == Violated || (o.Verdict == Undecided && a.worst != Violated) {
			if a.worst == Discharged || o.Verdict == Violated {
				a.first = o
			}
			a.worst = o.Verdict
		}
	}
	sort.Strings(keys)

	perRule := map[string][3]int{}
	nontrivial := 0
	discharged := 0
	for _, o := range r.Obls {
		c := perRule[o.Rule]
		switch o.Verdict {
		case Discharged:
			c[0]++
			discharged++
		case Violated:
			c[1]++
		case Undecided:
			c[2]++
		}
		perRule[o.Rule] = c
	}
	for _, k := range keys {
		if !byKey[k].first.Trivial {
			nontrivial++
		}
	}

	fmt.Printf("== chverif property=%s tier=%s configs=%s\n", r.Property, r.Tier, strings.Join(r.Configs, ","))
	var ak []string
	for k := range r.Analysed {
		ak = append(ak, k)
	}
	sort.Strings(ak)
	for _, k := range ak {
		fmt.Printf("   analysed %-28s %d\n", k, r.Analysed[k])
	}
	for _, id := range r.ruleOrder {
		c := perRule[id]
		fmt.Printf("   rule %-18s discharged=%d violated=%d undecided=%d\n", id, c[0], c[1], c[2])
	}

	_ = os.MkdirAll(filepath.Join(verifDir, "reports"), 0o755)
	_ = os.MkdirAll(filepath.Join(verifDir, "evidence"), 0o755)
	nViol := 0
	nKnown := 0
	var violSamples []any
	for _, k := range keys {
		a := byKey[k]
		if a.worst == Discharged {
			continue
		}
		o := a.first
		if a.worst == Violated {
			if f, ok := known[k]; ok {
				nKnown++
				fmt.Printf("KNOWN-FINDING: property=%s %s [%s at %s] %s\n", r.Property, f.Text, o.Rule, o.Pos, o.Construct)
				violSamples = append(violSamples, map[string]any{"known_finding": true, "obligation": o})
				continue
			}
		}
		nViol++
		name := fmt.Sprintf("%s-%d.json", r.Property, nViol)
		path := filepath.Join(verifDir, "reports", name)
		rep := map[string]any{
			"property": r.Property, "obligation": o, "configs": a.configs,
			"rule_text": r.RuleText[o.Rule], "tier": r.Tier,
		}
		b, _ := json.MarshalIndent(rep, "", " ")
		_ = os.WriteFile(path, b, 0o644)
		fmt.Printf("   %s %s :: %s\n      at %s [%s]\n      %s\n", strings.ToUpper(string(o.Verdict)), o.Rule, o.Construct, o.Pos, strings.Join(uniq(a.configs), ","), o.Detail)
		for _, s := range o.Path {
			fmt.Printf("        path: %s\n", s)
		}
		fmt.Printf("VIOLATION property=%s replay=%s\n", r.Property, path)
		violSamples = append(violSamples, o)
	}
	for _, f := range r.Fatal {
		fmt.Printf("   FATAL %s\n", f)
	}
	stFail := 0
	for _, s := range r.SelfTests {
		if !s.OK && !s.Skipped {
			stFail++
			fmt.Printf("   SELFTEST-FAIL %s %s rule=%s expected=%s got=%s\n", s.Kind, s.Name, s.Rule, s.Expected, s.Got)
		}
	}

	// samples: a few discharged obligations per rule plus all failing ones
	var samples []any
	samples = append(samples, violSamples...)
	perRuleShown := map[string]int{}
	for _, k := range keys {
		a := byKey[k]
		if a.worst != Discharged || a.first.Trivial {
			continue
		}
		if perRuleShown[a.first.Rule] >= 4 {
			continue
		}
		perRuleShown[a.first.Rule]++
		samples = append(samples, a.first)
	}
	if len(samples) == 0 {
		for _, k := range keys {
			samples = append(samples, byKey[k].first)
			if len(samples) > 3 {
				break
			}
		}
	}
	var expl []string
	for _, id := range r.ruleOrder {
		c := perRule[id]
		expl = append(expl, fmt.Sprintf("[%s] %s (obligations: %d discharged, %d violated, %d undecided)", id, r.RuleText[id], c[0], c[1], c[2]))
	}
	for _, n := range r.Notes {
		expl = append(expl, "note: "+n)
	}
	cov := map[string]any{
		"evaluations":         len(r.Obls),
		"distinct_nontrivial": nontrivial,
		"rule":                "one obligation per rule instance (function / call site / field / table row / revision) enumerated from the type-checked source of /repo in each build configuration; distinct = distinct rule+construct keys; non-trivial = the discharge needed an argument about the construct (population floors and 'no instance here' are excluded)",
		"obligations":         len(r.Obls),
		"discharged":          discharged,
		"samples":             samples,
		"explanation":         strings.Join(expl, "\n"),
		"configs":             r.Configs,
		"analysed":            r.Analysed,
		"known_findings":      nKnown,
		"self_tests":          r.SelfTests,
		"fatal":               r.Fatal,
		"checker_cmd":         "bin/chverif -prop " + r.Property + " -tier " + r.Tier,
		"trusted_base":        []string{"go/types", "go/ssa (x/tools v0.29.0)", "go/packages"},
		"exhaustive":          false,
	}
	ev := evidence{
		PropertyID: r.Property, Tier: r.Tier, Seed: r.Seed, Level: "other",
		Coverage: cov, Assumptions: r.Assumptions,
		WallS: time.Since(r.Start).Seconds(), Violations: nViol,
	}
	if ev.Assumptions == nil {
		ev.Assumptions = []string{}
	}
	b, _ := json.MarshalIndent(ev, "", " ")
	_ = os.WriteFile(filepath.Join(verifDir, "evidence", r.Property+".json"), b, 0o644)

	fmt.Printf("== %s: obligations=%d discharged=%d violations=%d known-findings=%d fatal=%d selftest-fail=%d wall=%.1fs\n",
		r.Property, len(r.Obls), discharged, nViol, nKnown, len(r.Fatal), stFail, ev.WallS)
	switch {
	case nViol > 0:
		return 1
	case len(r.Fatal) > 0:
		return 2
	case stFail > 0:
		return 3
	}
	return 0
}

func uniq(s []string) []string {
	m := map[string]bool{}
	var out []string
	for _, x := range s {
		if !m[x] {
			m[x] = true
			out = append(out, x)
		}
	}
	return out
}
