// Package core holds the loader, the obligation/evidence plumbing and the
// SSA/CFG helpers shared by all rules.
package core

import (
	"fmt"
	"go/ast"
	"go/token"
	"go/types"
	"os"
	"sort"
	"strings"
	"sync"
	"time"

	"golang.org/x/tools/go/packages"
	"golang.org/x/tools/go/ssa"
	"golang.org/x/tools/go/ssa/ssautil"
)

// Module path of the library under analysis.
const Mod = "github.com/ClickHouse/ch-go"

// Package paths of the library proper.
const (
	PkgCh       = Mod
	PkgProto    = Mod + "/proto"
	PkgCompress = Mod + "/compress"
	PkgPool     = Mod + "/chpool"
)

// Config is one build configuration.
type Config struct {
	Name string   // default | purego | 386
	Tags []string // build tags
	Env  []string // extra environment (GOARCH=...)
}

var (
	CfgDefault = Config{Name: "default"}
	CfgPurego  = Config{Name: "purego", Tags: []string{"purego"}}
	Cfg386     = Config{Name: "386", Env: []string{"GOARCH=386", "CGO_ENABLED=0"}}
)

// Program is one loaded, type-checked, SSA-built configuration of /repo.
type Program struct {
	Cfg     Config
	Dir     string
	Fset    *token.FileSet
	Pkgs    map[string]*packages.Package // by path, library packages only
	All     []*packages.Package
	Prog    *ssa.Program
	SSA     map[string]*ssa.Package
	LoadSec float64

	fnOnce sync.Once
	funcs  []*ssa.Function
	decls  map[*ssa.Function]*ast.FuncDecl
}

// Patterns loaded: the library; users (internal/cmd, examples, cht) are excluded.
var Patterns = []string{".", "./proto", "./compress", "./chpool"}

// Load type-checks dir under cfg with optional overlay (absolute path -> content).
func Load(dir string, cfg Config, overlay map[string][]byte) (*Program, error) {
	t0 := time.Now()
	env := append(os.Environ(),
		"GOFLAGS=-mod=mod", "GOPROXY=off", "GOSUMDB=off", "GOWORK=off", "GOTOOLCHAIN=local")
	env = append(env, cfg.Env...)
	pc := &packages.Config{
		Mode:    packages.LoadAllSyntax,
		Dir:     dir,
		Env:     env,
		Tests:   false,
		Overlay: overlay,
	}
	if len(cfg.Tags) > 0 {
		pc.BuildFlags = []string{"-tags=" + strings.Join(cfg.Tags, ",")}
	}
	pkgs, err := packages.Load(pc, Patterns...)
	if err != nil {
		return nil, fmt.Errorf("load %s: %w", cfg.Name, err)
	}
	if len(pkgs) == 0 {
		return nil, fmt.Errorf("load %s: zero packages", cfg.Name)
	}
	p := &Program{Cfg: cfg, Dir: dir, Pkgs: map[string]*packages.Package{}, SSA: map[string]*ssa.Package{}, All: pkgs}
	var errs []string
	for _, pk := range pkgs {
		for _, e := range pk.Errors {
			errs = append(errs, e.Error())
		}
		p.Pkgs[pk.PkgPath] = pk
		p.Fset = pk.Fset
	}
	if len(errs) > 0 {
		sort.Strings(errs)
		if len(errs) > 8 {
			errs = errs[:8]
		}
		return nil, fmt.Errorf("load %s: type errors:\n  %s", cfg.Name, strings.Join(errs, "\n  "))
	}
	for _, want := range []string{PkgCh, PkgProto, PkgCompress, PkgPool} {
		if p.Pkgs[want] == nil {
			return nil, fmt.Errorf("load %s: package %s missing", cfg.Name, want)
		}
	}
	prog, spkgs := ssautil.AllPackages(pkgs, ssa.InstantiateGenerics)
	p.Prog = prog
	for i, sp := range spkgs {
		if sp == nil {
			return nil, fmt.Errorf("load %s: no SSA for %s", cfg.Name, pkgs[i].PkgPath)
		}
		p.SSA[pkgs[i].PkgPath] = sp
	}
	// Build only the library packages: dependency bodies are not analysed.
	var wg sync.WaitGroup
	for _, sp := range spkgs {
		wg.Add(1)
		go func(sp *ssa.Package) { defer wg.Done(); sp.Build() }(sp)
	}
	wg.Wait()
	p.LoadSec = time.Since(t0).Seconds()
	return p, nil
}

// IsLib reports whether pkg is one of the library packages.
func IsLib(pkg *types.Package) bool {
	if pkg == nil {
		return false
	}
	switch pkg.Path() {
	case PkgCh, PkgProto, PkgCompress, PkgPool:
		return true
	}
	return false
}

// Funcs enumerates every source function of the library packages: package
// level functions, methods of every named type (generic origins included,
// which ssautil.AllFunctions omits) and all closures nested in them.
func (p *Program) Funcs() []*ssa.Function {
	p.fnOnce.Do(func() {
		seen := map[*ssa.Function]bool{}
		var add func(f *ssa.Function)
		add = func(f *ssa.Function) {
			if f == nil || seen[f] {
				return
			}
			seen[f] = true
			if f.Blocks != nil {
				p.funcs = append(p.funcs, f)
			}
			for _, a := range f.AnonFuncs {
				add(a)
			}
		}
		for _, path := range []string{PkgCh, PkgProto, PkgCompress, PkgPool} {
			sp := p.SSA[path]
			names := make([]string, 0, len(sp.Members))
			for n := range sp.Members {
				names = append(names, n)
			}
			sort.Strings(names)
			for _, n := range names {
				switch m := sp.Members[n].(type) {
				case *ssa.Function:
					add(m)
				case *ssa.Type:
					named, ok := m.Type().(*types.Named)
					if !ok {
						continue
					}
					for i := 0; i < named.NumMethods(); i++ {
						add(p.Prog.FuncValue(named.Method(i)))
					}
				}
			}
			// init and package-level var initialisers' closures
			add(sp.Func("init"))
		}
		sort.SliceStable(p.funcs, func(i, j int) bool { return p.funcs[i].Pos() < p.funcs[j].Pos() })
	})
	return p.funcs
}

// Pos formats a position relative to the repo dir.
func (p *Program) Pos(pos token.Pos) string {
	if !pos.IsValid() {
		return "-"
	}
	ps := p.Fset.Position(pos)
	f := strings.TrimPrefix(ps.Filename, p.Dir+"/")
	return fmt.Sprintf("%s:%d", f, ps.Line)
}

// File returns the repo-relative file name of pos.
func (p *Program) File(pos token.Pos) string {
	if !pos.IsValid() {
		return ""
	}
	return strings.TrimPrefix(p.Fset.Position(pos).Filename, p.Dir+"/")
}

// FuncName is a stable, readable key for a function: pkg.(Recv).Name or
// pkg.Name, closures as parent$N.
func FuncName(f *ssa.Function) string {
	if f == nil {
		return "<nil>"
	}
	if f.Parent() != nil {
		// closure: parent$index
		par := f.Parent()
		for i, a := range par.AnonFuncs {
			if a == f {
				return fmt.Sprintf("%s$%d", FuncName(par), i+1)
			}
		}
		return FuncName(par) + "$?"
	}
	o := f
	if f.Origin() != nil {
		o = f.Origin()
	}
	pkg := ""
	if o.Pkg != nil {
		pkg = shortPkg(o.Pkg.Pkg.Path())
	} else if o.Object() != nil && o.Object().Pkg() != nil {
		pkg = shortPkg(o.Object().Pkg().Path())
	}
	if recv := o.Signature.Recv(); recv != nil {
		t := recv.Type()
		ptr := ""
		if pt, ok := t.(*types.Pointer); ok {
			t = pt.Elem()
			ptr = "*"
		}
		name := t.String()
		if n, ok := t.(*types.Named); ok {
			name = n.Obj().Name()
		}
		return fmt.Sprintf("%s.(%s%s).%s", pkg, ptr, name, o.Name())
	}
	return pkg + "." + o.Name()
}

func shortPkg(path string) string {
	switch path {
	case PkgCh:
		return "ch"
	}
	if i := strings.LastIndex(path, "/"); i >= 0 {
		return path[i+1:]
	}
	return path
}

// Method returns the SSA function for method name of named type tname in pkg
// (generic origin when the type is generic), or nil.
func (p *Program) Method(pkgPath, tname, name string) *ssa.Function {
	pk := p.Pkgs[pkgPath]
	if pk == nil {
		return nil
	}
	obj := pk.Types.Scope().Lookup(tname)
	if obj == nil {
		return nil
	}
	named, ok := obj.Type().(*types.Named)
	if !ok {
		return nil
	}
	for i := 0; i < named.NumMethods(); i++ {
		if named.Method(i).Name() == name {
			return p.Prog.FuncValue(named.Method(i))
		}
	}
	return nil
}

// Func returns the package-level function name in pkg, or nil.
func (p *Program) Func(pkgPath, name string) *ssa.Function {
	sp := p.SSA[pkgPath]
	if sp == nil {
		return nil
	}
	return sp.Func(name)
}

// NamedType looks up a named type.
func (p *Program) NamedType(pkgPath, tname string) *types.Named {
	pk := p.Pkgs[pkgPath]
	if pk == nil {
		return nil
	}
	obj := pk.Types.Scope().Lookup(tname)
	if obj == nil {
		return nil
	}
	n, _ := obj.Type().(*types.Named)
	return n
}

// Decl returns the AST declaration of a source function, if any.
func (p *Program) Decl(f *ssa.Function) *ast.FuncDecl {
	if d, ok := f.Syntax().(*ast.FuncDecl); ok {
		return d
	}
	return nil
}

// FileOf returns the *ast.File containing pos in the library packages.
func (p *Program) FileOf(pos token.Pos) (*ast.File, *packages.Package) {
	for _, pk := range p.Pkgs {
		for _, f := range pk.Syntax {
			if f.Pos() <= pos && pos <= f.End() {
				return f, pk
			}
		}
	}
	return nil, nil
}
