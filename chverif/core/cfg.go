package core

import (
	"go/types"

	"golang.org/x/tools/go/ssa"
)

// Entry is the point before the first instruction of fn.
func Entry(fn *ssa.Function) Point { return Point{fn.Blocks[0], -1} }

// ReachAvoiding reports the witnesses of reaching an instruction satisfying
// target from `from` without first executing an instruction satisfying pass.
func ReachAvoiding(from Point, target, pass func(ssa.Instruction) bool, edge EdgeFilter) []Witness {
	return Forward(from, func(in ssa.Instruction) Action {
		if pass != nil && pass(in) {
			return Stop
		}
		if target(in) {
			return Hit
		}
		return Continue
	}, edge)
}

// IsExit matches Return instructions (normal exits). Panics are not exits.
func IsExit(in ssa.Instruction) bool {
	_, ok := in.(*ssa.Return)
	return ok
}

// WithoutEdge is an edge filter removing one CFG edge.
func WithoutEdge(b *ssa.BasicBlock, succ int) EdgeFilter {
	return func(x *ssa.BasicBlock, i int) bool { return !(x == b && i == succ) }
}

// WithoutEdges removes several edges.
type Edge struct {
	B    *ssa.BasicBlock
	Succ int
}

func WithoutEdges(es []Edge) EdgeFilter {
	return func(x *ssa.BasicBlock, i int) bool {
		for _, e := range es {
			if e.B == x && e.Succ == i {
				return false
			}
		}
		return true
	}
}

// OnlyViaEdges reports whether every path from the entry of fn to target
// crosses one of the given edges.
func OnlyViaEdges(fn *ssa.Function, target ssa.Instruction, es []Edge) bool {
	hits := ReachAvoiding(Entry(fn), func(in ssa.Instruction) bool { return in == target }, nil, WithoutEdges(es))
	return len(hits) == 0
}

// CondEdges finds the If instructions of fn whose condition satisfies match
// and returns, for each, the edge taken when the matched predicate is TRUE
// (want=true) or FALSE (want=false). match returns (polarity, ok): polarity
// false means the condition is the negation of the predicate.
func CondEdges(fn *ssa.Function, want bool, match func(cond ssa.Value) (polarity bool, ok bool)) []Edge {
	var out []Edge
	for _, b := range fn.Blocks {
		if len(b.Instrs) == 0 {
			continue
		}
		ifi, ok := b.Instrs[len(b.Instrs)-1].(*ssa.If)
		if !ok {
			continue
		}
		pol, ok := match(ifi.Cond)
		if !ok {
			continue
		}
		// Succs[0] taken when cond true
		takeTrue := want == pol
		if takeTrue {
			out = append(out, Edge{b, 0})
		} else {
			out = append(out, Edge{b, 1})
		}
	}
	return out
}

// StripNot removes UnOp NOT wrappers and reports the resulting polarity.
func StripNot(v ssa.Value) (ssa.Value, bool) {
	pol := true
	for {
		u, ok := v.(*ssa.UnOp)
		if !ok || u.Op.String() != "!" {
			return v, pol
		}
		v = u.X
		pol = !pol
	}
}

// CallTo reports whether v is (the result of) a call whose callee satisfies pred.
func CallTo(v ssa.Value, pred func(*types.Func) bool) (*ssa.Call, bool) {
	c, ok := v.(*ssa.Call)
	if !ok {
		return nil, false
	}
	f := CalleeFunc(c)
	if f == nil || !pred(f) {
		return nil, false
	}
	return c, true
}

// FindCalls returns the calls of fn whose callee satisfies pred.
func FindCalls(fn *ssa.Function, pred func(*types.Func) bool) []ssa.CallInstruction {
	var out []ssa.CallInstruction
	for _, c := range Calls(fn) {
		if f := CalleeFunc(c); f != nil && pred(f) {
			out = append(out, c)
		}
	}
	return out
}

// ReachesCallee reports whether a call to a callee satisfying pred is reachable
// from fn through static calls and closures created inside (bounded depth).
func ReachesCallee(fn *ssa.Function, pred func(*types.Func) bool, depth int) bool {
	seen := map[*ssa.Function]bool{}
	var rec func(f *ssa.Function, d int) bool
	rec = func(f *ssa.Function, d int) bool {
		if f == nil || seen[f] || d > depth {
			return false
		}
		seen[f] = true
		for _, b := range f.Blocks {
			for _, in := range b.Instrs {
				switch x := in.(type) {
				case ssa.CallInstruction:
					if cf := CalleeFunc(x); cf != nil && pred(cf) {
						return true
					}
					if sf := StaticFn(x); sf != nil && sf.Blocks != nil {
						if rec(sf, d+1) {
							return true
						}
					}
				case *ssa.MakeClosure:
					if cf, ok := x.Fn.(*ssa.Function); ok {
						if rec(cf, d+1) {
							return true
						}
					}
				}
			}
		}
		return false
	}
	return rec(fn, 0)
}

// StaticReach returns the set of library functions reachable from fn through
// static calls and closures created inside them.
func StaticReach(fn *ssa.Function, depth int) map[*ssa.Function]bool {
	seen := map[*ssa.Function]bool{}
	var rec func(f *ssa.Function, d int)
	rec = func(f *ssa.Function, d int) {
		if f == nil || seen[f] || d > depth || f.Blocks == nil {
			return
		}
		seen[f] = true
		for _, b := range f.Blocks {
			for _, in := range b.Instrs {
				switch x := in.(type) {
				case ssa.CallInstruction:
					if sf := StaticFn(x); sf != nil {
						rec(sf, d+1)
					}
					for _, a := range x.Common().Args {
						if mc, ok := a.(*ssa.MakeClosure); ok {
							if cf, ok := mc.Fn.(*ssa.Function); ok {
								rec(cf, d+1)
							}
						}
					}
				case *ssa.MakeClosure:
					if cf, ok := x.Fn.(*ssa.Function); ok {
						rec(cf, d+1)
					}
				}
			}
		}
	}
	rec(fn, 0)
	return seen
}

// ClosureArg returns the function passed as closure argument idx of call c.
func ClosureArg(c ssa.CallInstruction, idx int) *ssa.Function {
	args := c.Common().Args
	if idx >= len(args) {
		return nil
	}
	switch x := args[idx].(type) {
	case *ssa.MakeClosure:
		f, _ := x.Fn.(*ssa.Function)
		return f
	case *ssa.Function:
		return x
	}
	return nil
}

// IsDeferOf reports whether in is a defer of a callee satisfying pred.
func IsDeferOf(in ssa.Instruction, pred func(*types.Func) bool) bool {
	d, ok := in.(*ssa.Defer)
	if !ok {
		return false
	}
	f := CalleeFunc(d)
	return f != nil && pred(f)
}

// IsCallOf reports whether in is a call (or defer) of a callee satisfying pred.
func IsCallOf(in ssa.Instruction, pred func(*types.Func) bool) bool {
	c, ok := in.(ssa.CallInstruction)
	if !ok {
		return false
	}
	if _, isGo := in.(*ssa.Go); isGo {
		return false
	}
	f := CalleeFunc(c)
	return f != nil && pred(f)
}

// InLoop reports whether instruction in lies on a CFG cycle of its function.
func InLoop(in ssa.Instruction) bool {
	b := in.Block()
	seen := map[*ssa.BasicBlock]bool{}
	var stack []*ssa.BasicBlock
	stack = append(stack, b.Succs...)
	for len(stack) > 0 {
		x := stack[len(stack)-1]
		stack = stack[:len(stack)-1]
		if x == b {
			return true
		}
		if seen[x] {
			continue
		}
		seen[x] = true
		stack = append(stack, x.Succs...)
	}
	return false
}

// StaticReachList is StaticReach as a position-sorted list.
func StaticReachList(fn *ssa.Function) []*ssa.Function {
	m := StaticReach(fn, 6)
	var out []*ssa.Function
	for f := range m {
		out = append(out, f)
	}
	sortFuncs(out)
	return out
}

func sortFuncs(fs []*ssa.Function) {
	for i := 1; i < len(fs); i++ {
		for j := i; j > 0 && fs[j].Pos() < fs[j-1].Pos(); j-- {
			fs[j], fs[j-1] = fs[j-1], fs[j]
		}
	}
}

// FeasibleUnder computes which CFG edges of fn can be taken when some atomic
// conditions have a known truth value (atom returns 1 = true, 0 = false,
// -1 = unknown). Negations, boolean constants and phis of booleans (evaluated
// over the predecessors that are still reachable) are folded, so that
// `has := a != nil || b != nil; if !has {...}` is pruned like the plain
// short-circuit form. The result is an edge filter.
func FeasibleUnder(fn *ssa.Function, atom func(cond ssa.Value) int) EdgeFilter {
	reach := map[*ssa.BasicBlock]bool{}
	for _, b := range fn.Blocks {
		reach[b] = true
	}
	var eval func(v ssa.Value, d int) int
	edgeOK := func(b *ssa.BasicBlock, i int) bool {
		if !reach[b] {
			return false
		}
		if ifi, ok := b.Instrs[len(b.Instrs)-1].(*ssa.If); ok {
			switch eval(ifi.Cond, 0) {
			case 1:
				return i == 0
			case 0:
				return i == 1
			}
		}
		return true
	}
	eval = func(v ssa.Value, d int) int {
		if d > 8 {
			return -1
		}
		if r := atom(v); r >= 0 {
			return r
		}
		switch x := v.(type) {
		case *ssa.Const:
			if x.Value != nil {
				switch x.Value.String() {
				case "true":
					return 1
				case "false":
					return 0
				}
			}
		case *ssa.UnOp:
			if x.Op.String() == "!" {
				if r := eval(x.X, d+1); r >= 0 {
					return 1 - r
				}
			}
		case *ssa.Phi:
			res := -2
			for i, e := range x.Edges {
				pred := x.Block().Preds[i]
				si := -1
				for k, sc := range pred.Succs {
					if sc == x.Block() {
						si = k
					}
				}
				if si < 0 || !edgeOK(pred, si) {
					continue
				}
				r := eval(e, d+1)
				if r < 0 {
					return -1
				}
				if res == -2 {
					res = r
				} else if res != r {
					return -1
				}
			}
			if res >= 0 {
				return res
			}
		}
		return -1
	}
	for iter := 0; iter < 6; iter++ {
		next := map[*ssa.BasicBlock]bool{}
		var walk func(b *ssa.BasicBlock)
		walk = func(b *ssa.BasicBlock) {
			if next[b] {
				return
			}
			next[b] = true
			for i, sc := range b.Succs {
				if edgeOK(b, i) {
					walk(sc)
				}
			}
		}
		// reach must hold the previous iteration's set while walking
		walk(fn.Blocks[0])
		same := len(next) == len(reach)
		if same {
			for b := range reach {
				if reach[b] && !next[b] {
					same = false
				}
			}
		}
		cnt := 0
		for _, v := range reach {
			if v {
				cnt++
			}
		}
		if cnt == len(next) {
			same = true
			for b := range next {
				if !reach[b] {
					same = false
				}
			}
		} else {
			same = false
		}
		for b := range reach {
			reach[b] = next[b]
		}
		if same {
			break
		}
	}
	return func(b *ssa.BasicBlock, i int) bool { return edgeOK(b, i) }
}

// PredEdges returns the edges of fn on which the predicate recognised by match
// (same contract as CondEdges) has the truth value want. Besides the direct
// tests it follows boolean helpers of the same package: for
// `if c.reusable(res) {...}` the true edge counts when every return of the
// helper that can yield true lies behind such an edge inside the helper, or
// returns the matching comparison itself.
func PredEdges(fn *ssa.Function, want bool, match func(cond ssa.Value) (polarity bool, ok bool)) []Edge {
	return predEdges(fn, want, match, 0)
}

func predEdges(fn *ssa.Function, want bool, match func(cond ssa.Value) (bool, bool), depth int) []Edge {
	es := CondEdges(fn, want, match)
	if depth > 1 {
		return es
	}
	for _, b := range fn.Blocks {
		if len(b.Instrs) == 0 {
			continue
		}
		ifi, ok := b.Instrs[len(b.Instrs)-1].(*ssa.If)
		if !ok {
			continue
		}
		cond, pol := StripNot(ifi.Cond)
		idx := 0
		call, ok := cond.(*ssa.Call)
		if !ok {
			ex, isEx := cond.(*ssa.Extract)
			if !isEx {
				continue
			}
			if call, ok = ex.Tuple.(*ssa.Call); !ok {
				continue
			}
			idx = ex.Index
		}
		g := StaticFn(call)
		if g == nil || g.Blocks == nil || g.Pkg == nil || fn.Pkg == nil || g.Pkg != fn.Pkg || g.Signature.Results().Len() <= idx {
			continue
		}
		if bt, ok := g.Signature.Results().At(idx).Type().Underlying().(*types.Basic); !ok || bt.Kind() != types.Bool {
			continue
		}
		for _, resWant := range []bool{true, false} {
			if helperImplies(g, idx, resWant, want, match, depth+1) {
				succ := 1
				if resWant == pol {
					succ = 0
				}
				es = append(es, Edge{b, succ})
			}
		}
	}
	return es
}

func helperImplies(g *ssa.Function, idx int, resWant, want bool, match func(cond ssa.Value) (bool, bool), depth int) bool {
	inner := predEdges(g, want, match, depth)
	can := false
	for _, b := range g.Blocks {
		if len(b.Instrs) == 0 {
			continue
		}
		ret, ok := b.Instrs[len(b.Instrs)-1].(*ssa.Return)
		if !ok || len(ret.Results) <= idx {
			continue
		}
		v := ResolveCellLoad(ret.Results[idx], ret)
		// a short-circuit result `a && b` / `a || b` is a phi of a constant and the last operand
		vals := []ssa.Value{v}
		anchors := []ssa.Instruction{ret}
		if ph, isPhi := v.(*ssa.Phi); isPhi {
			vals, anchors = nil, nil
			for i, e := range ph.Edges {
				pred := ph.Block().Preds[i]
				vals = append(vals, e)
				anchors = append(anchors, pred.Instrs[len(pred.Instrs)-1])
			}
		}
		for vi, v := range vals {
			if k, isC := v.(*ssa.Const); isC && k.Value != nil {
				if (k.Value.String() == "true") != resWant {
					continue
				}
			} else if pol, ok := match(v); ok {
				// the result is the comparison itself: result == resWant fixes the predicate
				pred := pol
				if !resWant {
					pred = !pol
				}
				if pred == want {
					can = true
					continue
				}
			}
			can = true
			if len(inner) == 0 || !OnlyViaEdges(g, anchors[vi], inner) {
				return false
			}
		}
	}
	return can
}

// LoopHeader returns the innermost loop header of in's block (a block that
// dominates it and is reachable from it), or nil.
func LoopHeader(in ssa.Instruction) *ssa.BasicBlock {
	b := in.Block()
	fn := b.Parent()
	reach := map[*ssa.BasicBlock]bool{}
	var walk func(x *ssa.BasicBlock)
	walk = func(x *ssa.BasicBlock) {
		for _, s := range x.Succs {
			if !reach[s] {
				reach[s] = true
				walk(s)
			}
		}
	}
	walk(b)
	var best *ssa.BasicBlock
	for _, h := range fn.Blocks {
		if !reach[h] || !h.Dominates(b) {
			continue
		}
		// a header has a back edge: a predecessor it dominates
		isHeader := false
		for _, p := range h.Preds {
			if h.Dominates(p) {
				isHeader = true
			}
		}
		if !isHeader {
			continue
		}
		if best == nil || best.Dominates(h) {
			best = h
		}
	}
	return best
}

// SkippedInLoop reports a witness when an iteration of the innermost loop
// around in can reach the loop header again without executing in
// (a `continue`, or a conditional around it).
func SkippedInLoop(in ssa.Instruction) []Witness {
	h := LoopHeader(in)
	if h == nil {
		return nil
	}
	var out []Witness
	for _, s := range h.Succs {
		if s == h {
			continue
		}
		// only successors from which in is reachable without passing the header: the body side
		toIn := ReachAvoiding(Point{s, -1}, func(x ssa.Instruction) bool { return x == in }, func(x ssa.Instruction) bool { return x.Block() == h }, nil)
		if len(toIn) == 0 {
			continue
		}
		w := ReachAvoiding(Point{s, -1}, func(x ssa.Instruction) bool { return x.Block() == h }, func(x ssa.Instruction) bool { return x == in }, nil)
		out = append(out, w...)
	}
	return out
}

// FlagEdges summarises helpers that report a decision through a boolean result
// next to other results (`done, err := c.adopt(t); if done {...}`): for every
// If of fn that tests such a result of a static same-package callee h, the
// edge on which the flag has the value v is returned when every return of h
// that yields the constant v satisfies holds (and h has no return whose flag is
// not a constant). The caller states in holds what it needs to know about the
// paths of h that end there.
func FlagEdges(fn *ssa.Function, holds func(h *ssa.Function, ret *ssa.Return) bool) []Edge {
	return FlagEdgesOf(fn, nil, holds)
}

// FlagEdgesOf is FlagEdges restricted to the flags of one call (nil: all calls).
func FlagEdgesOf(fn *ssa.Function, only ssa.CallInstruction, holds func(h *ssa.Function, ret *ssa.Return) bool) []Edge {
	var out []Edge
	for _, b := range fn.Blocks {
		if len(b.Instrs) == 0 {
			continue
		}
		ifi, ok := b.Instrs[len(b.Instrs)-1].(*ssa.If)
		if !ok {
			continue
		}
		cond, pol := StripNot(ifi.Cond)
		idx := 0
		call, ok := cond.(*ssa.Call)
		if !ok {
			ex, isEx := cond.(*ssa.Extract)
			if !isEx {
				continue
			}
			if call, ok = ex.Tuple.(*ssa.Call); !ok {
				continue
			}
			idx = ex.Index
		}
		if only != nil && ssa.CallInstruction(call) != only {
			continue
		}
		h := StaticFn(call)
		if h == nil || h.Blocks == nil || h.Pkg == nil || fn.Pkg == nil || h.Pkg != fn.Pkg || h.Signature.Results().Len() <= idx || h.Signature.Results().Len() < 2 {
			continue
		}
		if bt, ok := h.Signature.Results().At(idx).Type().Underlying().(*types.Basic); !ok || bt.Kind() != types.Bool {
			continue
		}
		for _, val := range []bool{true, false} {
			good, any := true, false
			for _, hb := range h.Blocks {
				if len(hb.Instrs) == 0 {
					continue
				}
				ret, ok := hb.Instrs[len(hb.Instrs)-1].(*ssa.Return)
				if !ok || len(ret.Results) <= idx {
					continue
				}
				k, isC := ResolveCellLoad(ret.Results[idx], ret).(*ssa.Const)
				if !isC || k.Value == nil {
					good = false
					break
				}
				if (k.Value.String() == "true") != val {
					continue
				}
				any = true
				if !holds(h, ret) {
					good = false
					break
				}
			}
			if good && any {
				succ := 1
				if val == pol {
					succ = 0
				}
				out = append(out, Edge{b, succ})
			}
		}
	}
	return out
}
