// Command chverif decides one property of ch-go by static analysis of /repo.
package main

import (
	"flag"
	"fmt"
	"os"
	"path/filepath"
	"runtime/debug"
	"strconv"

	"chverif/core"
	"chverif/props"
)

func main() {
	prop := flag.String("prop", "", "property id (C01..C20)")
	tier := flag.String("tier", "", "quick | thorough (default: $VERIF_TIER or quick)")
	repo := flag.String("repo", "/repo", "path of the ch-go working tree")
	verif := flag.String("verif", "/verif", "path of the verification directory")
	list := flag.Bool("list", false, "list properties with a runner")
	noSelf := flag.Bool("no-selftest", false, "skip fixtures and mutants")
	flag.Parse()
	if *list {
		for _, id := range props.IDs() {
			fmt.Println(id)
		}
		return
	}
	if *tier == "" {
		*tier = os.Getenv("VERIF_TIER")
	}
	if *tier != "thorough" {
		*tier = "quick"
	}
	seed, _ := strconv.ParseInt(os.Getenv("VERIF_SEED"), 10, 64)
	if *prop == "all" {
		// development aid: every property in one process, sharing the loaded programs
		if abs, err := filepath.Abs(*repo); err == nil {
			*repo = abs
		}
		findings, _ := core.LoadFindings(filepath.Join(*verif, "known_findings.txt"))
		worst := 0
		for _, id := range props.IDs() {
			run, _ := props.Lookup(id)
			rep := core.NewReport(id, *tier, seed)
			ctx := props.NewCtx(*repo, *verif, *tier, rep)
			func() {
				defer func() {
					if e := recover(); e != nil {
						rep.Fatalf("analyser panic: %v\n%s", e, debug.Stack())
					}
				}()
				run(ctx)
				if !*noSelf {
					props.SelfTests(ctx, id)
				}
			}()
			if rc := rep.Finish(*verif, findings); rc > worst {
				worst = rc
			}
		}
		os.Exit(worst)
	}
	run, ok := props.Lookup(*prop)
	if !ok {
		fmt.Fprintf(os.Stderr, "chverif: no runner for property %q\n", *prop)
		os.Exit(2)
	}
	abs, err := filepath.Abs(*repo)
	if err == nil {
		*repo = abs
	}
	rep := core.NewReport(*prop, *tier, seed)
	ctx := props.NewCtx(*repo, *verif, *tier, rep)
	func() {
		defer func() {
			if e := recover(); e != nil {
				rep.Fatalf("analyser panic: %v\n%s", e, debug.Stack())
			}
		}()
		run(ctx)
		if !*noSelf {
			props.SelfTests(ctx, *prop)
		}
	}()
	findings, err := core.LoadFindings(filepath.Join(*verif, "known_findings.txt"))
	if err != nil {
		rep.Fatalf("known findings: %v", err)
	}
	os.Exit(rep.Finish(*verif, findings))
}
